#!/bin/bash
# Runs the thorough tier of the given properties one after the other (no proof cache: everything is re-proved).
cd /verif
for p in "$@"; do
  s=$(date +%s)
  ./bin/govc check -p $p -tier thorough 2>&1 | grep -v "^   " | grep "VIOLATION\|obligation:\|thorough:\|KNOWN" | cut -c1-220
  echo "  ($p thorough took $(( $(date +%s) - s )) s)"
done
