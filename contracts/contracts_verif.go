//go:build verif

// Contracts for the deductive verifier in /verif (govc). This file contains comments
// only; it adds no code to the package and is excluded from normal builds by its tag.
package astits

//@ func updateCRC32
//@   ensures [C10] fold: result == crcFold(old(crc32), bs, 0, len(bs))
//@   loop 0 invariant [C10] idx: rangeindex == iter - 1 && iter <= len(bs)
//@   loop 0 invariant [C10] acc: crc32 == crcFold(old(crc32), bs, 0, iter)
//@   loop 0 assert [C10] tablestep: crc32 == crcStep(pre(crc32), b)
//@   loop 0 decreases [C10] len(bs) - iter

//@ func computeCRC32
//@   ensures [C10] init: result == crcFold(0xFFFFFFFF, bs, 0, len(bs))

// ---------------------------------------------------------------------------
// packet.go: TS packet header / adaptation field (ISO/IEC 13818-1 2.4.3.2-5)

//@ func parsePacketHeader
//@   requires itOK(i)
//@   modifies i.offset
//@   let o = old(i.offset)
//@   let b0 = old(i.bs[i.offset])
//@   let b1 = old(i.bs[i.offset + 1])
//@   let b2 = old(i.bs[i.offset + 2])
//@   ensures erriff: (err != nil) == (len(i.bs) < o + 3)
//@   ensures adv: err == nil ==> i.offset == o + 3
//@   ensures noadv: err != nil ==> i.offset == o
//@   ensures [C11] tei: err == nil ==> h.TransportErrorIndicator == bit(b0, 0x80)
//@   ensures [C11] pusi: err == nil ==> h.PayloadUnitStartIndicator == bit(b0, 0x40)
//@   ensures [C11] prio: err == nil ==> h.TransportPriority == bit(b0, 0x20)
//@   ensures [C11] pid: err == nil ==> h.PID == u16(b0 & 0x1f) << 8 | u16(b1)
//@   ensures [C11] tsc: err == nil ==> h.TransportScramblingControl == b2 >> 6
//@   ensures [C11] hasaf: err == nil ==> h.HasAdaptationField == bit(b2, 0x20)
//@   ensures [C11] haspl: err == nil ==> h.HasPayload == bit(b2, 0x10)
//@   ensures [C11] cc: err == nil ==> h.ContinuityCounter == b2 & 0x0f

//@ func parsePCR
//@   requires itOK(i)
//@   modifies i.offset
//@   let o = old(i.offset)
//@   let v = old(u64(i.bs[i.offset]) << 40 | u64(i.bs[i.offset+1]) << 32 | u64(i.bs[i.offset+2]) << 24 | u64(i.bs[i.offset+3]) << 16 | u64(i.bs[i.offset+4]) << 8 | u64(i.bs[i.offset+5]))
//@   ensures erriff: (err != nil) == (len(i.bs) < o + 6)
//@   ensures adv: err == nil ==> i.offset == o + 6
//@   ensures noadv: err != nil ==> i.offset == o
//@   ensures [C11,C16] fresh: err == nil ==> cr != nil && fresh(cr)
//@   ensures [C11] base: err == nil ==> cr.Base == i64(v >> 15)
//@   ensures [C11] ext: err == nil ==> cr.Extension == i64(v & 0x1ff)

//@ func payloadOffset
//@   requires h.HasAdaptationField ==> a != nil
//@   ensures [C11,C02,C08] off: offset == offsetStart + 3 + ite(h.HasAdaptationField, 1 + a.Length, 0)

// ---------------------------------------------------------------------------
// data_pes.go: PES header (ISO/IEC 13818-1 2.4.3.6-7)

//@ func parsePTSOrDTS
//@   requires itOK(i)
//@   modifies i.offset
//@   let o = old(i.offset)
//@   ensures erriff: (err != nil) == (len(i.bs) < o + 5)
//@   ensures adv: err == nil ==> i.offset == o + 5
//@   ensures noadv: err != nil ==> i.offset == o
//@   ensures [C12,C11,C16] fresh: err == nil ==> cr != nil && fresh(cr)
//@   ensures [C12,C11] base: err == nil ==> cr.Base == i64(old(decTS33(i.bs, i.offset))) && cr.Extension == 0

//@ func parseESCR
//@   requires itOK(i)
//@   modifies i.offset
//@   let o = old(i.offset)
//@   ensures erriff: (err != nil) == (len(i.bs) < o + 6)
//@   ensures adv: err == nil ==> i.offset == o + 6
//@   ensures noadv: err != nil ==> i.offset == o
//@   ensures [C12,C16] fresh: err == nil ==> cr != nil && fresh(cr)
//@   ensures [C12] base: err == nil ==> cr.Base == i64(old(decESCRBase(i.bs, i.offset)))
//@   ensures [C12] ext: err == nil ==> cr.Extension == i64(old(decESCRExt(i.bs, i.offset)))

//@ func parseDSMTrickMode
//@   let c = i >> 5
//@   ensures [C12,C16] fresh: m != nil && fresh(m)
//@   ensures [C12] control: m.TrickModeControl == c
//@   ensures [C12] fieldid: m.FieldID == ite(c == 0 || c == 3 || c == 2, i >> 3 & 3, 0)
//@   ensures [C12] intra: m.IntraSliceRefresh == ite(c == 0 || c == 3, i >> 2 & 1, 0)
//@   ensures [C12] freq: m.FrequencyTruncation == ite(c == 0 || c == 3, i & 3, 0)
//@   ensures [C12] rep: m.RepeatControl == ite(c == 1 || c == 4, i & 0x1f, 0)

//@ func (ClockReference).Duration
//@   requires 0 <= p.Base && p.Base < 0x200000000 && 0 <= p.Extension && p.Extension < 512
//@   ensures [C12] nooverflow: mulok(p.Base, 1000000000) && mulok(p.Extension, 1000000000)
//@   ensures [C12] value: result == p.Base * 1000000000 / 90000 + p.Extension * 1000000000 / 27000000
//@   ensures [C12] nonneg: result >= 0

// ---------------------------------------------------------------------------
// dvb.go: BCD durations (EN 300 468 Annex C)

//@ func parseDVBDurationByte
//@   ensures [C15] bcd: result == bcd(i)

//@ func dvbDurationByteRepresentation
//@   ensures [C15] repr: result == bcdRepr(n)

//@ func parseDVBDurationMinutes
//@   requires itOK(i)
//@   modifies i.offset
//@   let o = old(i.offset)
//@   ensures erriff: (err != nil) == (len(i.bs) < o + 2)
//@   ensures adv: err == nil ==> i.offset == o + 2
//@   ensures noadv: err != nil ==> i.offset == o
//@   ensures [C15] value: err == nil ==> d == (bcd(old(ib(i, 0))) * 3600 + bcd(old(ib(i, 1))) * 60) * 1000000000

//@ func parseDVBDurationSeconds
//@   requires itOK(i)
//@   modifies i.offset
//@   let o = old(i.offset)
//@   ensures erriff: (err != nil) == (len(i.bs) < o + 3)
//@   ensures adv: err == nil ==> i.offset == o + 3
//@   ensures noadv: err != nil ==> i.offset == o
//@   ensures [C15] value: err == nil ==> d == (bcd(old(ib(i, 0))) * 3600 + bcd(old(ib(i, 1))) * 60 + bcd(old(ib(i, 2)))) * 1000000000

// ---------------------------------------------------------------------------
// wrapping_counter.go

//@ func (*wrappingCounter).inc
//@   requires c != nil
//@   modifies c.value
//@   ensures [C05,C17] step: c.value == ite(old(c.value) + 1 > c.wrapAt, 0, old(c.value) + 1) && result == c.value

//@ func (*wrappingCounter).get
//@   requires c != nil
//@   ensures [C05,C17] get: result == c.value

//@ func newWrappingCounter
//@   ensures [C05,C17] init: result.value == wrapAt + 1 && result.wrapAt == wrapAt

// Adaptation field (2.4.3.4-5). Offsets are relative to the length byte.
//@ func parsePacketAdaptationField
//@   requires itOK(i)
//@   modifies i.offset
//@   let o = old(i.offset)
//@   let L = int(old(ib(i, 0)))
//@   let fl = old(ib(i, 1))
//@   let hasPCR = L > 0 && bit(fl, 0x10)
//@   let hasOPCR = L > 0 && bit(fl, 0x08)
//@   let hasSplice = L > 0 && bit(fl, 0x04)
//@   let hasPriv = L > 0 && bit(fl, 0x02)
//@   let hasExt = L > 0 && bit(fl, 0x01)
//@   let oOPCR = 2 + ite(hasPCR, 6, 0)
//@   let oSplice = oOPCR + ite(hasOPCR, 6, 0)
//@   let oPriv = oSplice + ite(hasSplice, 1, 0)
//@   let privLen = int(old(ib(i, oPriv)))
//@   let oExt = oPriv + ite(hasPriv, 1 + privLen, 0)
//@   let extLen = int(old(ib(i, oExt)))
//@   let efl = old(ib(i, oExt + 1))
//@   let hasLTW = hasExt && extLen > 0 && bit(efl, 0x80)
//@   let hasPW = hasExt && extLen > 0 && bit(efl, 0x40)
//@   let hasSS = hasExt && extLen > 0 && bit(efl, 0x20)
//@   let oLTW = oExt + 2
//@   let oPW = oLTW + ite(hasLTW, 2, 0)
//@   let oSS = oPW + ite(hasPW, 3, 0)
//@   let consumed = ite(L > 0, ite(hasExt, ite(extLen > 0, oSS + ite(hasSS, 5, 0), oExt + 1), oExt), 1)
//@   split L > 0, hasExt, extLen > 0, hasSS
//@   at read PacketAdaptationField.Length#0 assert fLen: a.Length == L
//@   at read PacketAdaptationField.HasPCR#0 assert fPCR: a.HasPCR == hasPCR
//@   at read PacketAdaptationField.HasOPCR#0 assert fOPCR: a.HasOPCR == hasOPCR
//@   at read PacketAdaptationField.HasSplicingCountdown#0 assert fSplice: a.HasSplicingCountdown == hasSplice
//@   at read PacketAdaptationField.HasTransportPrivateData#0 assert fPriv: a.HasTransportPrivateData == hasPriv
//@   at read PacketAdaptationField.TransportPrivateDataLength#0 assert fPrivLen: a.TransportPrivateDataLength == privLen
//@   at read PacketAdaptationField.HasAdaptationExtensionField#0 assert fExt: a.HasAdaptationExtensionField == hasExt
//@   at read PacketAdaptationExtensionField.Length#0 assert fExtLen: a.AdaptationExtensionField.Length == extLen
//@   at read PacketAdaptationExtensionField.HasLegalTimeWindow#0 assert fLTW: a.AdaptationExtensionField.HasLegalTimeWindow == hasLTW
//@   at read PacketAdaptationExtensionField.HasPiecewiseRate#0 assert fPW: a.AdaptationExtensionField.HasPiecewiseRate == hasPW
//@   at read PacketAdaptationExtensionField.HasSeamlessSplice#0 assert fSS: a.AdaptationExtensionField.HasSeamlessSplice == hasSS
//@   at read PacketAdaptationField.HasOPCR#0 assert cutOPCR: i.offset == o + oOPCR
//@   at read PacketAdaptationField.HasSplicingCountdown#0 assert cutSplice: i.offset == o + oSplice
//@   at read PacketAdaptationField.HasTransportPrivateData#0 assert cutPriv: i.offset == o + oPriv
//@   at read PacketAdaptationField.HasAdaptationExtensionField#0 assert cutExt: i.offset == o + oExt
//@   at read PacketAdaptationField.HasAdaptationExtensionField#0 assert cutPrivData: hasPriv && privLen > 0 ==> len(a.TransportPrivateData) == privLen && bytesOf(a.TransportPrivateData) == old(bytesOf(i.bs[i.offset + oPriv + 1 : i.offset + oPriv + 1 + privLen]))
//@   at read PacketAdaptationExtensionField.HasLegalTimeWindow#0 assert cutLTW: i.offset == o + oLTW
//@   at read PacketAdaptationExtensionField.HasPiecewiseRate#0 assert cutPW: i.offset == o + oPW
//@   at read PacketAdaptationExtensionField.HasSeamlessSplice#0 assert cutSS: i.offset == o + oSS
//@   at call (*astikit.BytesIterator).Offset#1 assert cutEnd: i.offset == o + consumed
//@   ensures [C11,C16] fresh: err == nil ==> a != nil && fresh(a)
//@   ensures [C11,C02] length: err == nil ==> a.Length == L
//@   ensures [C11,C03] offset: err == nil ==> i.offset == o + consumed
//@   ensures [C11] stuffing: err == nil ==> a.StuffingLength == L - (consumed - 1)
//@   ensures [C11,C06] disc: err == nil ==> a.DiscontinuityIndicator == (L > 0 && bit(fl, 0x80))
//@   ensures [C11] rai: err == nil ==> a.RandomAccessIndicator == (L > 0 && bit(fl, 0x40))
//@   ensures [C11] espi: err == nil ==> a.ElementaryStreamPriorityIndicator == (L > 0 && bit(fl, 0x20))
//@   ensures [C11] flags: err == nil ==> a.HasPCR == hasPCR && a.HasOPCR == hasOPCR && a.HasSplicingCountdown == hasSplice && a.HasTransportPrivateData == hasPriv && a.HasAdaptationExtensionField == hasExt
//@   ensures [C11] pcr: err == nil && hasPCR ==> a.PCR != nil && a.PCR.Base == i64(old(be48(i.bs, i.offset + 2)) >> 15) && a.PCR.Extension == i64(old(be48(i.bs, i.offset + 2)) & 0x1ff)
//@   ensures [C11] nopcr: err == nil && !hasPCR ==> a.PCR == nil
//@   ensures [C11] opcr: err == nil && hasOPCR ==> a.OPCR != nil && a.OPCR.Base == i64(old(be48(i.bs, i.offset + oOPCR)) >> 15) && a.OPCR.Extension == i64(old(be48(i.bs, i.offset + oOPCR)) & 0x1ff)
//@   ensures [C11] noopcr: err == nil && !hasOPCR ==> a.OPCR == nil
//@   ensures [C11] splice: err == nil && hasSplice ==> a.SpliceCountdown == int(old(ib(i, oSplice)))
//@   ensures [C11] privlen: err == nil && hasPriv ==> a.TransportPrivateDataLength == privLen
//@   ensures [C11] privdata: err == nil && hasPriv && privLen > 0 ==> len(a.TransportPrivateData) == privLen && bytesOf(a.TransportPrivateData) == old(bytesOf(i.bs[i.offset + oPriv + 1 : i.offset + oPriv + 1 + privLen]))
//@   ensures [C11,C16,C07,C01] privfresh: err == nil && hasPriv && privLen > 0 ==> fresh(a.TransportPrivateData)
//@   ensures [C11] noprivdata: err == nil && !(hasPriv && privLen > 0) ==> len(a.TransportPrivateData) == 0
//@   ensures [C11] ext: err == nil ==> (a.AdaptationExtensionField != nil) == hasExt
//@   ensures [C11] extlen: err == nil && hasExt ==> a.AdaptationExtensionField.Length == extLen
//@   ensures [C11] extflags: err == nil && hasExt ==> a.AdaptationExtensionField.HasLegalTimeWindow == hasLTW && a.AdaptationExtensionField.HasPiecewiseRate == hasPW && a.AdaptationExtensionField.HasSeamlessSplice == hasSS
//@   ensures [C11] ltw: err == nil && hasLTW ==> a.AdaptationExtensionField.LegalTimeWindowIsValid == bit(old(ib(i, oLTW)), 0x80) && a.AdaptationExtensionField.LegalTimeWindowOffset == old(be16(i.bs, i.offset + oLTW)) & 0x7fff
//@   ensures [C11] pw: err == nil && hasPW ==> a.AdaptationExtensionField.PiecewiseRate == old(be24(i.bs, i.offset + oPW)) & 0x3fffff
//@   ensures [C11] ss: err == nil && hasSS ==> a.AdaptationExtensionField.SpliceType == old(ib(i, oSS)) >> 4 && a.AdaptationExtensionField.DTSNextAccessUnit != nil && a.AdaptationExtensionField.DTSNextAccessUnit.Base == i64(old(decTS33(i.bs, i.offset + oSS)))

// ---------------------------------------------------------------------------
// github.com/asticode/go-astikit BytesIterator: verified from the module-cache source
// like repository functions (these are the foundation of every parser).

//@ func astikit.NewBytesIterator
//@   ensures new: result != nil && fresh(result) && result.bs == bs && result.offset == 0

//@ func (*astikit.BytesIterator).NextByte
//@   requires itOK(i)
//@   modifies i.offset
//@   ensures erriff: (err != nil) == (len(i.bs) < old(i.offset) + 1)
//@   ensures ok: err == nil ==> b == old(ib(i, 0)) && i.offset == old(i.offset) + 1
//@   ensures fail: err != nil ==> i.offset == old(i.offset)

//@ func (*astikit.BytesIterator).NextBytes
//@   requires itOK(i) && 0 <= n && n < 0x1000000000000
//@   modifies i.offset
//@   ensures erriff: (err != nil) == (len(i.bs) < old(i.offset) + n)
//@   ensures ok: err == nil ==> len(bs) == n && cap(bs) == n && fresh(bs) && i.offset == old(i.offset) + n
//@   ensures content: err == nil ==> bytesOf(bs) == old(bytesOf(i.bs[i.offset : i.offset + n]))
//@   ensures fail: err != nil ==> i.offset == old(i.offset) && len(bs) == 0 && bs == nil

//@ func (*astikit.BytesIterator).NextBytesNoCopy
//@   requires itOK(i) && 0 <= n && n < 0x1000000000000
//@   modifies i.offset
//@   ensures erriff: (err != nil) == (len(i.bs) < old(i.offset) + n)
//@   ensures ok: err == nil ==> base(bs) == base(i.bs) && off(bs) == off(i.bs) + old(i.offset) && len(bs) == n && cap(bs) == cap(i.bs) - old(i.offset) && i.offset == old(i.offset) + n
//@   ensures fail: err != nil ==> i.offset == old(i.offset) && len(bs) == 0 && bs == nil

//@ func (*astikit.BytesIterator).Seek
//@   requires i != nil
//@   modifies i.offset
//@   ensures seek: i.offset == n

//@ func (*astikit.BytesIterator).Skip
//@   requires i != nil
//@   modifies i.offset
//@   ensures skip: i.offset == old(i.offset) + n

//@ func (*astikit.BytesIterator).HasBytesLeft
//@   requires i != nil
//@   ensures has: result == (i.offset < len(i.bs))

//@ func (*astikit.BytesIterator).Offset
//@   requires i != nil
//@   ensures off: result == i.offset

//@ func (*astikit.BytesIterator).Len
//@   requires i != nil
//@   ensures len: result == len(i.bs)

//@ func (*astikit.BytesIterator).Dump
//@   requires itOK(i)
//@   modifies i.offset
//@   let o = old(i.offset)
//@   ensures empty: o >= len(i.bs) ==> bs == nil && len(bs) == 0 && i.offset == o
//@   ensures some: o < len(i.bs) ==> len(bs) == len(i.bs) - o && fresh(bs) && i.offset == len(i.bs)
//@   ensures content: o < len(i.bs) ==> bytesOf(bs) == old(bytesOf(i.bs[i.offset:]))

// parsePacket (2.4.3.2): sync byte at 0, then the last 187 bytes of the (possibly
// larger than 188 bytes) packet buffer hold header, adaptation field and payload.
//@ func parsePacket
//@   requires itOK(i) && i.offset == 0 && len(i.bs) >= 188
//@   modifies i.offset
//@   let N = len(i.bs)
//@   let h0 = old(i.bs[len(i.bs) - 187])
//@   let h1 = old(i.bs[len(i.bs) - 186])
//@   let h2 = old(i.bs[len(i.bs) - 185])
//@   let hasAF = bit(h2, 0x20)
//@   let hasPL = bit(h2, 0x10)
//@   let afLen = int(old(i.bs[len(i.bs) - 184]))
//@   let plOff = N - 184 + ite(hasAF, 1 + afLen, 0)
//@   ensures [C11,C08] sync: old(i.bs[0]) != 0x47 ==> p == nil && err == ErrPacketMustStartWithASyncByte
//@   ensures [C11,C16,C19] fresh: err == nil ==> p != nil && fresh(p)
//@   ensures [C19] skipped: err == errSkippedPacket ==> p == nil
//@   ensures [C11,C08] pid: err == nil ==> p.Header.PID == u16(h0 & 0x1f) << 8 | u16(h1)
//@   ensures [C11,C08] hdrflags: err == nil ==> p.Header.TransportErrorIndicator == bit(h0, 0x80) && p.Header.PayloadUnitStartIndicator == bit(h0, 0x40) && p.Header.TransportPriority == bit(h0, 0x20)
//@   ensures [C11,C08] hdrctl: err == nil ==> p.Header.TransportScramblingControl == h2 >> 6 && p.Header.HasAdaptationField == hasAF && p.Header.HasPayload == hasPL && p.Header.ContinuityCounter == h2 & 0x0f
//@   ensures [C11,C08,C02] af: err == nil ==> (p.AdaptationField != nil) == hasAF
//@   ensures [C11,C08,C02] aflen: err == nil && hasAF ==> p.AdaptationField.Length == afLen
//@   ensures [C11,C08,C02,C01] payload: err == nil && hasPL && plOff < N ==> len(p.Payload) == N - plOff && bytesOf(p.Payload) == old(bytesOf(i.bs[plOff:]))
//@   ensures [C11,C16,C02] payloadfresh: err == nil && hasPL && plOff < N ==> fresh(p.Payload)
//@   ensures [C11,C02] nopayload: err == nil && !(hasPL && plOff < N) ==> len(p.Payload) == 0 && p.Payload == nil
