//go:build verif

// Contracts for the deductive verifier in /verif (govc). This file contains comments
// only; it adds no code to the package and is excluded from normal builds by its tag.
package astits

//@ func updateCRC32
//@   opt sweep:C03
//@   ensures [C10] fold: result == crcFold(old(crc32), bs, 0, len(bs))
//@   loop 0 invariant [C10] idx: rangeindex == iter - 1 && iter <= len(bs)
//@   loop 0 invariant [C10] acc: crc32 == crcFold(old(crc32), bs, 0, iter)
//@   loop 0 assert [C10] tablestep: crc32 == crcStep(pre(crc32), b)
//@   loop 0 decreases [C10] len(bs) - iter

//@ func computeCRC32
//@   opt sweep:C03
//@   ensures [C10] init: result == crcFold(0xFFFFFFFF, bs, 0, len(bs))

// ---------------------------------------------------------------------------
// packet.go: TS packet header / adaptation field (ISO/IEC 13818-1 2.4.3.2-5)

//@ func parsePacketHeader
//@   opt sweep:C03
//@   requires itOK(i)
//@   modifies i.offset
//@   let o = old(i.offset)
//@   let b0 = old(i.bs[i.offset])
//@   let b1 = old(i.bs[i.offset + 1])
//@   let b2 = old(i.bs[i.offset + 2])
//@   ensures erriff: (err != nil) == (len(i.bs) < o + 3)
//@   ensures adv: err == nil ==> i.offset == o + 3
//@   ensures noadv: err != nil ==> i.offset == o
//@   ensures [C11] tei: err == nil ==> h.TransportErrorIndicator == bit(b0, 0x80)
//@   ensures [C11] pusi: err == nil ==> h.PayloadUnitStartIndicator == bit(b0, 0x40)
//@   ensures [C11] prio: err == nil ==> h.TransportPriority == bit(b0, 0x20)
//@   ensures [C11] pid: err == nil ==> h.PID == u16(b0 & 0x1f) << 8 | u16(b1)
//@   ensures [C11] tsc: err == nil ==> h.TransportScramblingControl == b2 >> 6
//@   ensures [C11] hasaf: err == nil ==> h.HasAdaptationField == bit(b2, 0x20)
//@   ensures [C11] haspl: err == nil ==> h.HasPayload == bit(b2, 0x10)
//@   ensures [C11] cc: err == nil ==> h.ContinuityCounter == b2 & 0x0f

//@ func parsePCR
//@   opt sweep:C03
//@   requires itOK(i)
//@   modifies i.offset
//@   let o = old(i.offset)
//@   let v = old(u64(i.bs[i.offset]) << 40 | u64(i.bs[i.offset+1]) << 32 | u64(i.bs[i.offset+2]) << 24 | u64(i.bs[i.offset+3]) << 16 | u64(i.bs[i.offset+4]) << 8 | u64(i.bs[i.offset+5]))
//@   ensures erriff: (err != nil) == (len(i.bs) < o + 6)
//@   ensures adv: err == nil ==> i.offset == o + 6
//@   ensures noadv: err != nil ==> i.offset == o
//@   ensures [C11,C16] fresh: err == nil ==> cr != nil && fresh(cr)
//@   ensures [C11] base: err == nil ==> cr.Base == i64(v >> 15)
//@   ensures [C11] ext: err == nil ==> cr.Extension == i64(v & 0x1ff)

//@ func payloadOffset
//@   opt sweep:C03
//@   requires h.HasAdaptationField ==> a != nil
//@   ensures [C11,C02,C08] off: offset == offsetStart + 3 + ite(h.HasAdaptationField, 1 + a.Length, 0)

// ---------------------------------------------------------------------------
// data_pes.go: PES header (ISO/IEC 13818-1 2.4.3.6-7)

//@ func parsePTSOrDTS
//@   opt sweep:C03
//@   requires itOK(i)
//@   modifies i.offset
//@   let o = old(i.offset)
//@   ensures erriff: (err != nil) == (len(i.bs) < o + 5)
//@   ensures adv: err == nil ==> i.offset == o + 5
//@   ensures noadv: err != nil ==> i.offset == o
//@   ensures [C12,C11,C16] fresh: err == nil ==> cr != nil && fresh(cr)
//@   ensures [C12,C11] base: err == nil ==> cr.Base == i64(old(decTS33(i.bs, i.offset))) && cr.Extension == 0

//@ func parseESCR
//@   opt sweep:C03
//@   requires itOK(i)
//@   modifies i.offset
//@   let o = old(i.offset)
//@   ensures erriff: (err != nil) == (len(i.bs) < o + 6)
//@   ensures adv: err == nil ==> i.offset == o + 6
//@   ensures noadv: err != nil ==> i.offset == o
//@   ensures [C12,C16] fresh: err == nil ==> cr != nil && fresh(cr)
//@   ensures [C12] base: err == nil ==> cr.Base == i64(old(decESCRBase(i.bs, i.offset)))
//@   ensures [C12] ext: err == nil ==> cr.Extension == i64(old(decESCRExt(i.bs, i.offset)))

//@ func parseDSMTrickMode
//@   opt sweep:C03
//@   let c = i >> 5
//@   ensures [C12,C16] fresh: m != nil && fresh(m)
//@   ensures [C12] control: m.TrickModeControl == c
//@   ensures [C12] fieldid: m.FieldID == ite(c == 0 || c == 3 || c == 2, i >> 3 & 3, 0)
//@   ensures [C12] intra: m.IntraSliceRefresh == ite(c == 0 || c == 3, i >> 2 & 1, 0)
//@   ensures [C12] freq: m.FrequencyTruncation == ite(c == 0 || c == 3, i & 3, 0)
//@   ensures [C12] rep: m.RepeatControl == ite(c == 1 || c == 4, i & 0x1f, 0)

//@ func (ClockReference).Duration
//@   requires 0 <= p.Base && p.Base < 0x200000000 && 0 <= p.Extension && p.Extension < 512
//@   ensures [C12] nooverflow: mulok(p.Base, 1000000000) && mulok(p.Extension, 1000000000)
//@   ensures [C12] value: result == p.Base * 1000000000 / 90000 + p.Extension * 1000000000 / 27000000
//@   ensures [C12] nonneg: result >= 0

// ---------------------------------------------------------------------------
// dvb.go: BCD durations (EN 300 468 Annex C)

//@ func parseDVBDurationByte
//@   opt sweep:C03
//@   ensures [C15] bcd: result == bcd(i)

//@ func dvbDurationByteRepresentation
//@   ensures [C15] repr: result == bcdRepr(n)

//@ func parseDVBDurationMinutes
//@   opt sweep:C03
//@   requires itOK(i)
//@   modifies i.offset
//@   let o = old(i.offset)
//@   ensures erriff: (err != nil) == (len(i.bs) < o + 2)
//@   ensures adv: err == nil ==> i.offset == o + 2
//@   ensures noadv: err != nil ==> i.offset == o
//@   ensures [C15] value: err == nil ==> d == (bcd(old(ib(i, 0))) * 3600 + bcd(old(ib(i, 1))) * 60) * 1000000000

//@ func parseDVBDurationSeconds
//@   opt sweep:C03
//@   requires itOK(i)
//@   modifies i.offset
//@   let o = old(i.offset)
//@   ensures erriff: (err != nil) == (len(i.bs) < o + 3)
//@   ensures adv: err == nil ==> i.offset == o + 3
//@   ensures noadv: err != nil ==> i.offset == o
//@   ensures [C15] value: err == nil ==> d == (bcd(old(ib(i, 0))) * 3600 + bcd(old(ib(i, 1))) * 60 + bcd(old(ib(i, 2)))) * 1000000000

// ---------------------------------------------------------------------------
// wrapping_counter.go

//@ func (*wrappingCounter).inc
//@   requires c != nil
//@   modifies c.value
//@   ensures [C05,C17] step: c.value == ite(old(c.value) + 1 > c.wrapAt, 0, old(c.value) + 1) && result == c.value

//@ func (*wrappingCounter).get
//@   requires c != nil
//@   ensures [C05,C17] get: result == c.value

//@ func newWrappingCounter
//@   ensures [C05,C17] init: result.value == wrapAt + 1 && result.wrapAt == wrapAt

// Adaptation field (2.4.3.4-5). Offsets are relative to the length byte.
//@ func parsePacketAdaptationField
//@   opt sweep:C03
//@   requires itOK(i)
//@   modifies i.offset
//@   let o = old(i.offset)
//@   let L = int(old(ib(i, 0)))
//@   let fl = old(ib(i, 1))
//@   let hasPCR = L > 0 && bit(fl, 0x10)
//@   let hasOPCR = L > 0 && bit(fl, 0x08)
//@   let hasSplice = L > 0 && bit(fl, 0x04)
//@   let hasPriv = L > 0 && bit(fl, 0x02)
//@   let hasExt = L > 0 && bit(fl, 0x01)
//@   let oOPCR = 2 + ite(hasPCR, 6, 0)
//@   let oSplice = oOPCR + ite(hasOPCR, 6, 0)
//@   let oPriv = oSplice + ite(hasSplice, 1, 0)
//@   let privLen = int(old(ib(i, oPriv)))
//@   let oExt = oPriv + ite(hasPriv, 1 + privLen, 0)
//@   let extLen = int(old(ib(i, oExt)))
//@   let efl = old(ib(i, oExt + 1))
//@   let hasLTW = hasExt && extLen > 0 && bit(efl, 0x80)
//@   let hasPW = hasExt && extLen > 0 && bit(efl, 0x40)
//@   let hasSS = hasExt && extLen > 0 && bit(efl, 0x20)
//@   let oLTW = oExt + 2
//@   let oPW = oLTW + ite(hasLTW, 2, 0)
//@   let oSS = oPW + ite(hasPW, 3, 0)
//@   let consumed = ite(L > 0, ite(hasExt, ite(extLen > 0, oSS + ite(hasSS, 5, 0), oExt + 1), oExt), 1)
//@   split L > 0, hasExt, extLen > 0, hasSS
//@   at read PacketAdaptationField.Length#0 assert fLen: a.Length == L
//@   at read PacketAdaptationField.HasPCR#0 assert fPCR: a.HasPCR == hasPCR
//@   at read PacketAdaptationField.HasOPCR#0 assert fOPCR: a.HasOPCR == hasOPCR
//@   at read PacketAdaptationField.HasSplicingCountdown#0 assert fSplice: a.HasSplicingCountdown == hasSplice
//@   at read PacketAdaptationField.HasTransportPrivateData#0 assert fPriv: a.HasTransportPrivateData == hasPriv
//@   at read PacketAdaptationField.TransportPrivateDataLength#0 assert fPrivLen: a.TransportPrivateDataLength == privLen
//@   at read PacketAdaptationField.HasAdaptationExtensionField#0 assert fExt: a.HasAdaptationExtensionField == hasExt
//@   at read PacketAdaptationExtensionField.Length#0 assert fExtLen: a.AdaptationExtensionField.Length == extLen
//@   at read PacketAdaptationExtensionField.HasLegalTimeWindow#0 assert fLTW: a.AdaptationExtensionField.HasLegalTimeWindow == hasLTW
//@   at read PacketAdaptationExtensionField.HasPiecewiseRate#0 assert fPW: a.AdaptationExtensionField.HasPiecewiseRate == hasPW
//@   at read PacketAdaptationExtensionField.HasSeamlessSplice#0 assert fSS: a.AdaptationExtensionField.HasSeamlessSplice == hasSS
//@   at read PacketAdaptationField.HasOPCR#0 assert cutOPCR: i.offset == o + oOPCR
//@   at read PacketAdaptationField.HasSplicingCountdown#0 assert cutSplice: i.offset == o + oSplice
//@   at read PacketAdaptationField.HasTransportPrivateData#0 assert cutPriv: i.offset == o + oPriv
//@   at read PacketAdaptationField.HasAdaptationExtensionField#0 assert cutExt: i.offset == o + oExt
//@   at read PacketAdaptationField.HasAdaptationExtensionField#0 assert cutPrivData: hasPriv && privLen > 0 ==> len(a.TransportPrivateData) == privLen && bytesOf(a.TransportPrivateData) == old(bytesOf(i.bs[i.offset + oPriv + 1 : i.offset + oPriv + 1 + privLen]))
//@   at read PacketAdaptationExtensionField.HasLegalTimeWindow#0 assert cutLTW: i.offset == o + oLTW
//@   at read PacketAdaptationExtensionField.HasPiecewiseRate#0 assert cutPW: i.offset == o + oPW
//@   at read PacketAdaptationExtensionField.HasSeamlessSplice#0 assert cutSS: i.offset == o + oSS
//@   at call (*astikit.BytesIterator).Offset#1 assert cutEnd: i.offset == o + consumed
//@   ensures [C11,C16] fresh: err == nil ==> a != nil && fresh(a)
//@   ensures [C11,C02] length: err == nil ==> a.Length == L
//@   ensures [C11,C01] onebyte: err == nil ==> a.IsOneByteStuffing == (L == 0)
//@   ensures [C11,C03] offset: err == nil ==> i.offset == o + consumed
//@   ensures [C11] stuffing: err == nil ==> a.StuffingLength == L - (consumed - 1)
//@   ensures [C11,C01] relen: err == nil && (hasExt ==> extLen > 0) && (hasPriv ==> privLen > 0) ==> afBytes(a) == 1 + L
//@   ensures [C11,C06] disc: err == nil ==> a.DiscontinuityIndicator == (L > 0 && bit(fl, 0x80))
//@   ensures [C11] rai: err == nil ==> a.RandomAccessIndicator == (L > 0 && bit(fl, 0x40))
//@   ensures [C11] espi: err == nil ==> a.ElementaryStreamPriorityIndicator == (L > 0 && bit(fl, 0x20))
//@   ensures [C11] flags: err == nil ==> a.HasPCR == hasPCR && a.HasOPCR == hasOPCR && a.HasSplicingCountdown == hasSplice && a.HasTransportPrivateData == hasPriv && a.HasAdaptationExtensionField == hasExt
//@   ensures [C11] pcr: err == nil && hasPCR ==> a.PCR != nil && a.PCR.Base == i64(old(be48(i.bs, i.offset + 2)) >> 15) && a.PCR.Extension == i64(old(be48(i.bs, i.offset + 2)) & 0x1ff)
//@   ensures [C11] nopcr: err == nil && !hasPCR ==> a.PCR == nil
//@   ensures [C11] opcr: err == nil && hasOPCR ==> a.OPCR != nil && a.OPCR.Base == i64(old(be48(i.bs, i.offset + oOPCR)) >> 15) && a.OPCR.Extension == i64(old(be48(i.bs, i.offset + oOPCR)) & 0x1ff)
//@   ensures [C11] noopcr: err == nil && !hasOPCR ==> a.OPCR == nil
//@   ensures [C11] splice: err == nil && hasSplice ==> a.SpliceCountdown == int(old(ib(i, oSplice)))
//@   ensures [C11] privlen: err == nil && hasPriv ==> a.TransportPrivateDataLength == privLen
//@   ensures [C11] privdata: err == nil && hasPriv && privLen > 0 ==> len(a.TransportPrivateData) == privLen && bytesOf(a.TransportPrivateData) == old(bytesOf(i.bs[i.offset + oPriv + 1 : i.offset + oPriv + 1 + privLen]))
//@   ensures [C11,C16,C07,C01] privfresh: err == nil && hasPriv && privLen > 0 ==> fresh(a.TransportPrivateData)
//@   ensures [C11] noprivdata: err == nil && !(hasPriv && privLen > 0) ==> len(a.TransportPrivateData) == 0
//@   ensures [C11] ext: err == nil ==> (a.AdaptationExtensionField != nil) == hasExt
//@   ensures [C11] extlen: err == nil && hasExt ==> a.AdaptationExtensionField.Length == extLen
//@   ensures [C11] extflags: err == nil && hasExt ==> a.AdaptationExtensionField.HasLegalTimeWindow == hasLTW && a.AdaptationExtensionField.HasPiecewiseRate == hasPW && a.AdaptationExtensionField.HasSeamlessSplice == hasSS
//@   ensures [C11] ltw: err == nil && hasLTW ==> a.AdaptationExtensionField.LegalTimeWindowIsValid == bit(old(ib(i, oLTW)), 0x80) && a.AdaptationExtensionField.LegalTimeWindowOffset == old(be16(i.bs, i.offset + oLTW)) & 0x7fff
//@   ensures [C11] pw: err == nil && hasPW ==> a.AdaptationExtensionField.PiecewiseRate == old(be24(i.bs, i.offset + oPW)) & 0x3fffff
//@   ensures [C11] ss: err == nil && hasSS ==> a.AdaptationExtensionField.SpliceType == old(ib(i, oSS)) >> 4 && a.AdaptationExtensionField.DTSNextAccessUnit != nil && a.AdaptationExtensionField.DTSNextAccessUnit.Base == i64(old(decTS33(i.bs, i.offset + oSS)))

// ---------------------------------------------------------------------------
// github.com/asticode/go-astikit BytesIterator: verified from the module-cache source
// like repository functions (these are the foundation of every parser).

//@ func astikit.NewBytesIterator
//@   opt sweep:C03
//@   ensures new: result != nil && fresh(result) && result.bs == bs && result.offset == 0

//@ func (*astikit.BytesIterator).NextByte
//@   opt sweep:C03
//@   ensures inb: err == nil ==> i.offset <= len(i.bs)
//@   requires itOK(i)
//@   modifies i.offset
//@   ensures erriff: (err != nil) == (len(i.bs) < old(i.offset) + 1)
//@   ensures ok: err == nil ==> b == old(ib(i, 0)) && i.offset == old(i.offset) + 1
//@   ensures fail: err != nil ==> i.offset == old(i.offset)

//@ func (*astikit.BytesIterator).NextBytes
//@   opt sweep:C03
//@   ensures inb: err == nil ==> i.offset <= len(i.bs)
//@   requires itOK(i) && 0 <= n && n < 0x1000000000000
//@   modifies i.offset
//@   ensures erriff: (err != nil) == (len(i.bs) < old(i.offset) + n)
//@   ensures ok: err == nil ==> len(bs) == n && cap(bs) == n && fresh(bs) && i.offset == old(i.offset) + n
//@   ensures content: err == nil ==> bytesOf(bs) == old(bytesOf(i.bs[i.offset : i.offset + n]))
//@   ensures fail: err != nil ==> i.offset == old(i.offset) && len(bs) == 0 && bs == nil

//@ func (*astikit.BytesIterator).NextBytesNoCopy
//@   opt sweep:C03
//@   ensures inb: err == nil ==> i.offset <= len(i.bs)
//@   requires itOK(i) && 0 <= n && n < 0x1000000000000
//@   modifies i.offset
//@   ensures erriff: (err != nil) == (len(i.bs) < old(i.offset) + n)
//@   ensures ok: err == nil ==> base(bs) == base(i.bs) && off(bs) == off(i.bs) + old(i.offset) && len(bs) == n && cap(bs) == cap(i.bs) - old(i.offset) && i.offset == old(i.offset) + n
//@   ensures fail: err != nil ==> i.offset == old(i.offset) && len(bs) == 0 && bs == nil

//@ func (*astikit.BytesIterator).Seek
//@   opt sweep:C03
//@   requires i != nil
//@   modifies i.offset
//@   ensures seek: i.offset == n

//@ func (*astikit.BytesIterator).Skip
//@   opt sweep:C03
//@   requires i != nil
//@   modifies i.offset
//@   ensures skip: i.offset == old(i.offset) + n

//@ func (*astikit.BytesIterator).HasBytesLeft
//@   opt sweep:C03
//@   requires i != nil
//@   ensures has: result == (i.offset < len(i.bs))

//@ func (*astikit.BytesIterator).Offset
//@   opt sweep:C03
//@   requires i != nil
//@   ensures off: result == i.offset

//@ func (*astikit.BytesIterator).Len
//@   opt sweep:C03
//@   requires i != nil
//@   ensures len: result == len(i.bs)

//@ func (*astikit.BytesIterator).Dump
//@   opt sweep:C03
//@   requires itOK(i)
//@   modifies i.offset
//@   let o = old(i.offset)
//@   ensures empty: o >= len(i.bs) ==> bs == nil && len(bs) == 0 && i.offset == o
//@   ensures some: o < len(i.bs) ==> len(bs) == len(i.bs) - o && fresh(bs) && i.offset == len(i.bs)
//@   ensures content: o < len(i.bs) ==> bytesOf(bs) == old(bytesOf(i.bs[i.offset:]))

// parsePacket (2.4.3.2): sync byte at 0, then the last 187 bytes of the (possibly
// larger than 188 bytes) packet buffer hold header, adaptation field and payload.
//@ func parsePacket
//@   opt sweep:C03
//@   requires itOK(i) && i.offset == 0 && len(i.bs) >= 188
//@   modifies i.offset, calls(s)
//@   let N = len(i.bs)
//@   let h0 = old(i.bs[len(i.bs) - 187])
//@   let h1 = old(i.bs[len(i.bs) - 186])
//@   let h2 = old(i.bs[len(i.bs) - 185])
//@   let hasAF = bit(h2, 0x20)
//@   let hasPL = bit(h2, 0x10)
//@   let afLen = int(old(i.bs[len(i.bs) - 184]))
//@   let plOff = N - 184 + ite(hasAF, 1 + afLen, 0)
//@   ensures [C11,C08] sync: old(i.bs[0]) != 0x47 ==> p == nil && err == ErrPacketMustStartWithASyncByte
//@   ensures [C11,C16,C19] fresh: err == nil ==> p != nil && fresh(p)
//@   ensures [C19] skipped: err == errSkippedPacket ==> p == nil
//@   ensures [C19] consulted: s != nil && (err == nil || err == errSkippedPacket) ==> calls(s) == old(calls(s)) + 1
//@   ensures [C19] atmostonce: calls(s) == old(calls(s)) || calls(s) == old(calls(s)) + 1
//@   ensures [C11,C08] pid: err == nil ==> p.Header.PID == u16(h0 & 0x1f) << 8 | u16(h1)
//@   ensures [C11,C08] hdrflags: err == nil ==> p.Header.TransportErrorIndicator == bit(h0, 0x80) && p.Header.PayloadUnitStartIndicator == bit(h0, 0x40) && p.Header.TransportPriority == bit(h0, 0x20)
//@   ensures [C11,C08] hdrctl: err == nil ==> p.Header.TransportScramblingControl == h2 >> 6 && p.Header.HasAdaptationField == hasAF && p.Header.HasPayload == hasPL && p.Header.ContinuityCounter == h2 & 0x0f
//@   ensures [C11,C08,C02] af: err == nil ==> (p.AdaptationField != nil) == hasAF
//@   ensures [C11,C08,C02] aflen: err == nil && hasAF ==> p.AdaptationField.Length == afLen
//@   ensures [C11,C08,C02,C01] payload: err == nil && hasPL && plOff < N ==> len(p.Payload) == N - plOff && bytesOf(p.Payload) == old(bytesOf(i.bs[plOff:]))
//@   ensures [C11,C16,C02] payloadfresh: err == nil && hasPL && plOff < N ==> fresh(p.Payload)
//@   ensures [C11,C02] nopayload: err == nil && !(hasPL && plOff < N) ==> len(p.Payload) == 0 && p.Payload == nil

// PES optional header (2.4.3.7). Offsets relative to the first flag byte.
//@ func parsePESOptionalHeader
//@   opt sweep:C03
//@   requires itOK(i)
//@   modifies i.offset
//@   let o = old(i.offset)
//@   let b0 = old(ib(i, 0))
//@   let b1 = old(ib(i, 1))
//@   let hl = int(old(ib(i, 2)))
//@   let ind = b1 >> 6
//@   let hasESCR = bit(b1, 0x20)
//@   let hasRate = bit(b1, 0x10)
//@   let hasTrick = bit(b1, 0x08)
//@   let hasCopy = bit(b1, 0x04)
//@   let hasCRC = bit(b1, 0x02)
//@   let hasExt = bit(b1, 0x01)
//@   let oESCR = 3 + ite(ind == 2, 5, ite(ind == 3, 10, 0))
//@   let oRate = oESCR + ite(hasESCR, 6, 0)
//@   let oTrick = oRate + ite(hasRate, 3, 0)
//@   let oCopy = oTrick + ite(hasTrick, 1, 0)
//@   let oCRC = oCopy + ite(hasCopy, 1, 0)
//@   let oExtF = oCRC + ite(hasCRC, 2, 0)
//@   let ef = old(ib(i, oExtF))
//@   let hasPD = hasExt && bit(ef, 0x80)
//@   let hasPack = hasExt && bit(ef, 0x40)
//@   let hasSeq = hasExt && bit(ef, 0x20)
//@   let hasPSTD = hasExt && bit(ef, 0x10)
//@   let hasExt2 = hasExt && bit(ef, 0x01)
//@   let oPD = oExtF + 1
//@   let oPack = oPD + ite(hasPD, 16, 0)
//@   let oSeq = oPack + ite(hasPack, 1, 0)
//@   let oPSTD = oSeq + ite(hasSeq, 2, 0)
//@   let oExt2 = oPSTD + ite(hasPSTD, 2, 0)
//@   let e2len = int(old(ib(i, oExt2)) & 0x7f)
//@   let consumed = ite(hasExt, ite(hasExt2, oExt2 + 1 + e2len, oExt2), oExtF)
//@   split hasExt, ind == 2, ind == 3, hasExt2, hasPD, hasPSTD, hasESCR
//@   at read PESOptionalHeader.PTSDTSIndicator#0 assert fInd: h.PTSDTSIndicator == ind
//@   at read PESOptionalHeader.HasESCR#0 assert fESCR: h.HasESCR == hasESCR
//@   at read PESOptionalHeader.HasESCR#0 assert cESCR: i.offset == o + oESCR
//@   at read PESOptionalHeader.HasESRate#0 assert fRate: h.HasESRate == hasRate
//@   at read PESOptionalHeader.HasESRate#0 assert cRate: i.offset == o + oRate
//@   at read PESOptionalHeader.HasDSMTrickMode#0 assert fTrick: h.HasDSMTrickMode == hasTrick
//@   at read PESOptionalHeader.HasDSMTrickMode#0 assert cTrick: i.offset == o + oTrick
//@   at read PESOptionalHeader.HasAdditionalCopyInfo#0 assert fCopy: h.HasAdditionalCopyInfo == hasCopy
//@   at read PESOptionalHeader.HasAdditionalCopyInfo#0 assert cCopy: i.offset == o + oCopy
//@   at read PESOptionalHeader.HasCRC#0 assert fCRC: h.HasCRC == hasCRC
//@   at read PESOptionalHeader.HasCRC#0 assert cCRC: i.offset == o + oCRC
//@   at read PESOptionalHeader.HasExtension#0 assert fExt: h.HasExtension == hasExt
//@   at read PESOptionalHeader.HasExtension#0 assert cExt: i.offset == o + oExtF
//@   at read PESOptionalHeader.HasPrivateData#0 assert fPD: h.HasPrivateData == hasPD
//@   at read PESOptionalHeader.HasPrivateData#0 assert cPD: i.offset == o + oPD
//@   at read PESOptionalHeader.HasPackHeaderField#0 assert fPack: h.HasPackHeaderField == hasPack
//@   at read PESOptionalHeader.HasPackHeaderField#0 assert cPack: i.offset == o + oPack
//@   at read PESOptionalHeader.HasProgramPacketSequenceCounter#0 assert fSeq: h.HasProgramPacketSequenceCounter == hasSeq
//@   at read PESOptionalHeader.HasProgramPacketSequenceCounter#0 assert cSeq: i.offset == o + oSeq
//@   at read PESOptionalHeader.HasPSTDBuffer#0 assert fPSTD: h.HasPSTDBuffer == hasPSTD
//@   at read PESOptionalHeader.HasPSTDBuffer#0 assert cPSTD: i.offset == o + oPSTD
//@   at read PESOptionalHeader.HasExtension2#0 assert fExt2: h.HasExtension2 == hasExt2
//@   at read PESOptionalHeader.HasExtension2#0 assert cExt2: i.offset == o + oExt2
//@   ensures [C12,C16] fresh: err == nil ==> h != nil && fresh(h)
//@   ensures [C12] start: err == nil ==> dataStart == o + 3 + hl
//@   ensures [C12,C03] offset: err == nil ==> i.offset == o + consumed
//@   ensures [C12,C01] relen: err == nil && !hasCRC && !hasPack && (hasExt2 ==> e2len == len(h.Extension2Data)) ==> ohEnd(h) == consumed
//@   ensures [C12] byte0: err == nil ==> h.MarkerBits == b0 >> 6 && h.ScramblingControl == b0 >> 4 & 3 && h.Priority == bit(b0, 0x08) && h.DataAlignmentIndicator == bit(b0, 0x04) && h.IsCopyrighted == bit(b0, 0x02) && h.IsOriginal == bit(b0, 0x01)
//@   ensures [C12] byte1: err == nil ==> h.PTSDTSIndicator == ind && h.HasESCR == hasESCR && h.HasESRate == hasRate && h.HasDSMTrickMode == hasTrick && h.HasAdditionalCopyInfo == hasCopy && h.HasCRC == hasCRC && h.HasExtension == hasExt
//@   ensures [C12] hlen: err == nil ==> h.HeaderLength == u8(hl)
//@   ensures [C12] pts: err == nil && (ind == 2 || ind == 3) ==> h.PTS != nil && h.PTS.Base == i64(old(decTS33(i.bs, i.offset + 3)))
//@   ensures [C12] nopts: err == nil && !(ind == 2 || ind == 3) ==> h.PTS == nil
//@   ensures [C12] dts: err == nil && ind == 3 ==> h.DTS != nil && h.DTS.Base == i64(old(decTS33(i.bs, i.offset + 8)))
//@   ensures [C12] nodts: err == nil && ind != 3 ==> h.DTS == nil
//@   ensures [C12] escr: err == nil && hasESCR ==> h.ESCR != nil && h.ESCR.Base == i64(old(decESCRBase(i.bs, i.offset + oESCR))) && h.ESCR.Extension == i64(old(decESCRExt(i.bs, i.offset + oESCR)))
//@   ensures [C12] rate: err == nil && hasRate ==> h.ESRate == old(be24(i.bs, i.offset + oRate)) >> 1 & 0x3fffff
//@   ensures [C12] trick: err == nil && hasTrick ==> h.DSMTrickMode != nil && h.DSMTrickMode.TrickModeControl == old(ib(i, oTrick)) >> 5
//@   ensures [C12] copy: err == nil && hasCopy ==> h.AdditionalCopyInfo == old(ib(i, oCopy)) & 0x7f
//@   ensures [C12] crc: err == nil && hasCRC ==> h.CRC == old(be16(i.bs, i.offset + oCRC))
//@   ensures [C12] extflags: err == nil ==> h.HasPrivateData == hasPD && h.HasPackHeaderField == hasPack && h.HasProgramPacketSequenceCounter == hasSeq && h.HasPSTDBuffer == hasPSTD && h.HasExtension2 == hasExt2
//@   ensures [C12] pd: err == nil && hasPD ==> len(h.PrivateData) == 16 && bytesOf(h.PrivateData) == old(bytesOf(i.bs[i.offset + oPD : i.offset + oPD + 16]))
//@   ensures [C12,C16] pdfresh: err == nil && hasPD ==> fresh(h.PrivateData)
//@   ensures [C12] pack: err == nil && hasPack ==> h.PackField == old(ib(i, oPack))
//@   ensures [C12] seq: err == nil && hasSeq ==> h.PacketSequenceCounter == old(ib(i, oSeq)) & 0x7f && h.MPEG1OrMPEG2ID == old(ib(i, oSeq + 1)) >> 6 & 1 && h.OriginalStuffingLength == old(ib(i, oSeq + 1)) & 0x3f
//@   ensures [C12] pstd: err == nil && hasPSTD ==> h.PSTDBufferScale == old(ib(i, oPSTD)) >> 5 & 1 && h.PSTDBufferSize == old(be16(i.bs, i.offset + oPSTD)) & 0x1fff
//@   ensures [C12] ext2: err == nil && hasExt2 ==> h.Extension2Length == u8(e2len) && len(h.Extension2Data) == e2len && bytesOf(h.Extension2Data) == old(bytesOf(i.bs[i.offset + oExt2 + 1 : i.offset + oExt2 + 1 + e2len]))
//@   ensures [C12,C16] ext2fresh: err == nil && hasExt2 && e2len > 0 ==> fresh(h.Extension2Data)

//@ func parsePESHeader
//@   opt sweep:C03
//@   requires itOK(i)
//@   modifies i.offset
//@   let o = old(i.offset)
//@   let sid = old(ib(i, 0))
//@   let plen = old(be16(i.bs, i.offset + 1))
//@   let hasOpt = sid != 190 && sid != 191
//@   ensures [C12,C16] fresh: err == nil ==> h != nil && fresh(h)
//@   ensures [C12] sid: err == nil ==> h.StreamID == sid && h.PacketLength == plen
//@   ensures [C12] end: err == nil ==> dataEnd == ite(plen > 0, o + 3 + int(plen), len(i.bs))
//@   ensures [C12] opt: err == nil ==> (h.OptionalHeader != nil) == hasOpt
//@   ensures [C12] start: err == nil ==> dataStart == ite(hasOpt, o + 6 + int(old(ib(i, 5))), o + 3)

//@ func parsePESData
//@   opt sweep:C03
//@   requires itOK(i) && len(i.bs) >= 3
//@   modifies i.offset
//@   let sid = old(i.bs[3])
//@   let plen = old(be16(i.bs, 4))
//@   let hasOpt = sid != 190 && sid != 191
//@   let dStart = ite(hasOpt, 9 + int(old(i.bs[8])), 6)
//@   let dEnd = ite(plen > 0, 6 + int(plen), len(i.bs))
//@   ensures [C12,C16] fresh: err == nil ==> d != nil && fresh(d) && d.Header != nil
//@   ensures [C12] range: err == nil ==> dStart <= dEnd && dEnd <= len(i.bs)
//@   ensures [C12,C01,C02] data: err == nil ==> len(d.Data) == dEnd - dStart && bytesOf(d.Data) == old(bytesOf(i.bs[dStart:dEnd]))
//@   ensures [C12,C16] datafresh: err == nil ==> fresh(d.Data)
//@   ensures [C12] hdr: err == nil ==> d.Header.StreamID == sid && d.Header.PacketLength == plen

// ---------------------------------------------------------------------------
// Writers. wN(w)/wD(w)/wF(w): bytes accepted by w's sink, their values, failed sink writes.

//@ func writePacketHeader
//@   requires aligned(w)
//@   modifies w.cache, w.cacheLen, sinkN(w.w), sinkData(w.w), sinkFails(w.w)
//@   let n0 = old(wN(w))
//@   ensures [W] n: written == 3 && retErr == nil
//@   ensures [W] count: wN(w) == n0 + 3 && aligned(w)
//@   ensures [C18] surfaced: wF(w) != old(wF(w)) ==> retErr != nil
//@   ensures [C11] b0: retErr == nil ==> wD(w)[n0] == u8(h.TransportErrorIndicator) << 7 | u8(h.PayloadUnitStartIndicator) << 6 | u8(h.TransportPriority) << 5 | u8(h.PID >> 8 & 0x1f)
//@   ensures [C11] b1: retErr == nil ==> wD(w)[n0 + 1] == u8(h.PID & 0xff)
//@   ensures [C11] b2: retErr == nil ==> wD(w)[n0 + 2] == (h.TransportScramblingControl & 3) << 6 | u8(h.HasAdaptationField) << 5 | u8(h.HasPayload) << 4 | h.ContinuityCounter & 0x0f
//@   ensures [C11,C04] prefix: wPrefix(w)

//@ func writePCR
//@   requires aligned(w) && cr != nil
//@   modifies writer(w)
//@   let n0 = old(wN(w))
//@   let V = encPCR(cr.Base, cr.Extension)
//@   ensures [W] n: result0 == 6 && wN(w) == n0 + 6 && aligned(w) && result1 == nil
//@   ensures [C11] bytes: wb(w, n0, 0) == u8(V >> 40) && wb(w, n0, 1) == u8(V >> 32) && wb(w, n0, 2) == u8(V >> 24) && wb(w, n0, 3) == u8(V >> 16) && wb(w, n0, 4) == u8(V >> 8) && wb(w, n0, 5) == u8(V)
//@   ensures [C11,C04] prefix: wPrefix(w)
//@   ensures [C18] surfaced: wF(w) != old(wF(w)) ==> result1 != nil

//@ func writePTSOrDTS
//@   requires aligned(w) && cr != nil
//@   modifies writer(w)
//@   let n0 = old(wN(w))
//@   let V = encTS33(flag, cr.Base)
//@   ensures [W] n: bytesWritten == 5 && wN(w) == n0 + 5 && aligned(w) && retErr == nil
//@   ensures [C12,C11] bytes: wb(w, n0, 0) == u8(V >> 32) && wb(w, n0, 1) == u8(V >> 24) && wb(w, n0, 2) == u8(V >> 16) && wb(w, n0, 3) == u8(V >> 8) && wb(w, n0, 4) == u8(V)
//@   ensures [C12,C11,C04] prefix: wPrefix(w)
//@   ensures [C18] surfaced: wF(w) != old(wF(w)) ==> retErr != nil

//@ func writeESCR
//@   requires aligned(w) && cr != nil
//@   modifies writer(w)
//@   let n0 = old(wN(w))
//@   let V = encESCR(cr.Base, cr.Extension)
//@   ensures [W] n: result0 == 6 && wN(w) == n0 + 6 && aligned(w) && result1 == nil
//@   ensures [C12] bytes: wb(w, n0, 0) == u8(V >> 40) && wb(w, n0, 1) == u8(V >> 32) && wb(w, n0, 2) == u8(V >> 24) && wb(w, n0, 3) == u8(V >> 16) && wb(w, n0, 4) == u8(V >> 8) && wb(w, n0, 5) == u8(V)
//@   ensures [C12,C04] prefix: wPrefix(w)
//@   ensures [C18] surfaced: wF(w) != old(wF(w)) ==> result1 != nil

//@ func writeDSMTrickMode
//@   requires aligned(w) && m != nil && m.TrickModeControl < 8
//@   modifies writer(w)
//@   let n0 = old(wN(w))
//@   let c = m.TrickModeControl & 7
//@   ensures [W] n: result0 == 1 && wN(w) == n0 + 1 && aligned(w) && result1 == nil
//@   ensures [C12] byte: wb(w, n0, 0) == c << 5 | ite(c == 0 || c == 3, (m.FieldID & 3) << 3 | u8(m.IntraSliceRefresh == 1) << 2 | m.FrequencyTruncation & 3, ite(c == 2, (m.FieldID & 3) << 3 | 7, ite(c == 1 || c == 4, m.RepeatControl & 0x1f, 0x1f)))
//@   ensures [C12,C04] prefix: wPrefix(w)
//@   ensures [C18] surfaced: wF(w) != old(wF(w)) ==> result1 != nil

//@ func calcPacketAdaptationFieldExtensionLength
//@   requires afe != nil
//@   ensures [W] len: length == u8(1 + ite(afe.HasLegalTimeWindow, 2, 0) + ite(afe.HasPiecewiseRate, 3, 0) + ite(afe.HasSeamlessSplice, 5, 0))

//@ func writePacketAdaptationFieldExtension
//@   requires aligned(w) && afe != nil && (afe.HasSeamlessSplice ==> afe.DTSNextAccessUnit != nil)
//@   modifies writer(w)
//@   let n0 = old(wN(w))
//@   let L = 1 + ite(afe.HasLegalTimeWindow, 2, 0) + ite(afe.HasPiecewiseRate, 3, 0) + ite(afe.HasSeamlessSplice, 5, 0)
//@   let oPW = 2 + ite(afe.HasLegalTimeWindow, 2, 0)
//@   let oSS = oPW + ite(afe.HasPiecewiseRate, 3, 0)
//@   let V = encTS33(afe.SpliceType, afe.DTSNextAccessUnit.Base)
//@   ensures [W] n: retErr == nil && bytesWritten == 1 + L && wN(w) == n0 + 1 + L && aligned(w)
//@   ensures [C11] lenbyte: wb(w, n0, 0) == u8(L)
//@   ensures [C11] flags: wb(w, n0, 1) == u8(afe.HasLegalTimeWindow) << 7 | u8(afe.HasPiecewiseRate) << 6 | u8(afe.HasSeamlessSplice) << 5 | 0x1f
//@   ensures [C11] ltw: afe.HasLegalTimeWindow ==> wb(w, n0, 2) == u8(afe.LegalTimeWindowIsValid) << 7 | u8(afe.LegalTimeWindowOffset >> 8 & 0x7f) && wb(w, n0, 3) == u8(afe.LegalTimeWindowOffset & 0xff)
//@   ensures [C11] pw: afe.HasPiecewiseRate ==> wb(w, n0, oPW) == 0xc0 | u8(afe.PiecewiseRate >> 16 & 0x3f) && wb(w, n0, oPW + 1) == u8(afe.PiecewiseRate >> 8 & 0xff) && wb(w, n0, oPW + 2) == u8(afe.PiecewiseRate & 0xff)
//@   ensures [C11] ss: afe.HasSeamlessSplice ==> wb(w, n0, oSS) == u8(V >> 32) && wb(w, n0, oSS + 1) == u8(V >> 24) && wb(w, n0, oSS + 2) == u8(V >> 16) && wb(w, n0, oSS + 3) == u8(V >> 8) && wb(w, n0, oSS + 4) == u8(V)
//@   ensures [C11,C04] prefix: wPrefix(w)
//@   ensures [C18] surfaced: wF(w) != old(wF(w)) ==> retErr != nil

//@ func newStuffingAdaptationField
//@   ensures [W] one: bytesToStuff == 1 ==> result != nil && fresh(result) && result.IsOneByteStuffing && result.StuffingLength == 0
//@   ensures [W] blank: result != nil && !result.HasPCR && !result.HasOPCR && !result.HasSplicingCountdown && !result.HasTransportPrivateData && !result.HasAdaptationExtensionField && len(result.TransportPrivateData) == 0 && result.TransportPrivateData == nil && result.TransportPrivateDataLength == 0
//@   ensures [W] many: bytesToStuff != 1 ==> result != nil && fresh(result) && !result.IsOneByteStuffing && result.StuffingLength == bytesToStuff - 2 && !result.HasPCR && !result.HasOPCR && !result.HasSplicingCountdown && !result.HasTransportPrivateData && !result.HasAdaptationExtensionField && len(result.TransportPrivateData) == 0

// afBody(af): bytes of an adaptation field after its length byte, when every optional part is as declared
//@ func calcPacketAdaptationFieldLength
//@   requires af != nil && (af.HasAdaptationExtensionField ==> af.AdaptationExtensionField != nil)
//@   let ext = ite(af.HasAdaptationExtensionField, 2 + ite(af.AdaptationExtensionField.HasLegalTimeWindow, 2, 0) + ite(af.AdaptationExtensionField.HasPiecewiseRate, 3, 0) + ite(af.AdaptationExtensionField.HasSeamlessSplice, 5, 0), 0)
//@   let body = 1 + ite(af.HasPCR, 6, 0) + ite(af.HasOPCR, 6, 0) + ite(af.HasSplicingCountdown, 1, 0) + ite(af.HasTransportPrivateData, 1 + len(af.TransportPrivateData), 0) + ext + af.StuffingLength
//@   ensures [W] len: length == u8(body)

//@ func writePacketAdaptationField
//@   requires aligned(w) && afOK(af) && afBody(af) <= 255 && 0 <= wN(w) && wN(w) < 0x1000000000000
//@   modifies writer(w)
//@   let n0 = old(wN(w))
//@   let body = afBody(af)
//@   let flagsByte = u8(af.DiscontinuityIndicator) << 7 | u8(af.RandomAccessIndicator) << 6 | u8(af.ElementaryStreamPriorityIndicator) << 5 | u8(af.HasPCR) << 4 | u8(af.HasOPCR) << 3 | u8(af.HasSplicingCountdown) << 2 | u8(af.HasTransportPrivateData) << 1 | u8(af.HasAdaptationExtensionField)
//@   split af.HasPCR, af.HasOPCR, af.HasTransportPrivateData, af.HasAdaptationExtensionField, af.HasSplicingCountdown
//@   ensures [W] n: retErr == nil && bytesWritten == afBytes(af) && wN(w) == n0 + afBytes(af) && aligned(w)
//@   ensures [C11,C04] onebyte: af.IsOneByteStuffing ==> wb(w, n0, 0) == 0
//@   ensures [C11,C04] lenbyte: !af.IsOneByteStuffing ==> wb(w, n0, 0) == u8(body)
//@   ensures [C11] flags: !af.IsOneByteStuffing ==> wb(w, n0, 1) == flagsByte
//@   ensures [C18] surfaced: wF(w) != old(wF(w)) ==> retErr != nil
//@   loop 0 invariant [W] cnt: i == iter && 0 <= i && i <= af.StuffingLength && aligned(w) && bytesWritten == atentry(bytesWritten) + iter && wN(w) == atentry(wN(w)) + iter && b.err == nil
//@   loop 0 invariant [C18] latch: wF(w) != old(wF(w)) ==> b.err != nil
//@   loop 0 invariant [W] eN: atentry(wN(w)) == n0 + 1 + body - af.StuffingLength && atentry(bytesWritten) == 1 + body - af.StuffingLength && !af.IsOneByteStuffing && n0 >= 0 && n0 < 0x1000000000000
//@   loop 0 invariant [C11,C04] kLen: wb(w, n0, 0) == u8(body)
//@   loop 0 invariant [C11] kFlags: wb(w, n0, 1) == flagsByte
//@   loop 0 decreases [W] af.StuffingLength - i

// writePacket: sync byte, header, adaptation field, payload, 0xff padding up to targetPacketSize.
//@ func writePacket
//@   requires aligned(w) && p != nil && 0 <= wN(w) && wN(w) < 0x800000000000 && 0 < targetPacketSize && targetPacketSize < 0x10000
//@   requires p.Header.HasAdaptationField ==> afOK(p.AdaptationField) && afBody(p.AdaptationField) <= 255
//@   requires allocated(p.Payload) && 0 <= len(p.Payload) && len(p.Payload) < 0x10000
//@   modifies writer(w)
//@   let n0 = old(wN(w))
//@   let afb = ite(p.Header.HasAdaptationField, afBytes(p.AdaptationField), 0)
//@   let fits = 4 + afb + len(p.Payload) <= targetPacketSize
//@   ensures [W] ok: fits ==> retErr == nil && written == targetPacketSize
//@   ensures [W] size: fits && p.Header.HasPayload ==> wN(w) == n0 + targetPacketSize && aligned(w)
//@   ensures [C04,C11] nopayload: fits && !p.Header.HasPayload && len(p.Payload) == 0 ==> wN(w) == n0 + targetPacketSize && aligned(w)
//@   ensures [C04,C11] reject: !fits ==> retErr != nil && written == 0
//@   ensures [C04] rejectclean: !fits ==> wN(w) == n0
//@   ensures [C04] ownerr: retErr != ErrPCRPIDInvalid && retErr != ErrPIDNotFound
//@   ensures [C18] surfaced: wF(w) != old(wF(w)) ==> retErr != nil
//@   ensures [C16] keeps: len(p.Payload) == old(len(p.Payload)) && cap(p.Payload) == old(cap(p.Payload)) && p.AdaptationField == old(p.AdaptationField)
//@   loop 0 invariant [W] pad: aligned(w) && written <= targetPacketSize && wN(w) == atentry(wN(w)) + iter && written == atentry(written) + iter
//@   loop 0 invariant [W] ePad: fits && atentry(written) == 4 + afb + ite(p.Header.HasPayload, len(p.Payload), 0) && atentry(wN(w)) == n0 + atentry(written)
//@   loop 0 invariant [C18] nofail: wF(w) == old(wF(w))
//@   loop 0 decreases [W] targetPacketSize - written

//@ func calcPESOptionalHeaderDataLength
//@   requires h != nil && 0 <= len(h.Extension2Data) && len(h.Extension2Data) <= 127
//@   ensures [W] len: length == u8(ohData(h))

//@ func calcPESOptionalHeaderLength
//@   requires h != nil ==> 0 <= len(h.Extension2Data) && len(h.Extension2Data) <= 127
//@   ensures [W] len: result == ite(h == nil, 0, u8(3 + ohData(h)))

//@ func writePESOptionalHeader
//@   requires aligned(w) && (h != nil ==> ohOK(h)) && 0 <= wN(w) && wN(w) < 0x800000000000
//@   modifies writer(w)
//@   let n0 = old(wN(w))
//@   let ind = h.PTSDTSIndicator
//@   let oESCR = ohESCR(h)
//@   let oRate = ohRate(h)
//@   let oTrick = ohTrick(h)
//@   let oCopy = ohCopy(h)
//@   let oExtF = ohExtF(h)
//@   let oPD = ohPD(h)
//@   let oSeq = ohSeq(h)
//@   let oPSTD = ohPSTD(h)
//@   let oExt2 = ohExt2(h)
//@   let byte0 = 0x80 | (h.ScramblingControl & 3) << 4 | u8(h.Priority) << 3 | u8(h.DataAlignmentIndicator) << 2 | u8(h.IsCopyrighted) << 1 | u8(h.IsOriginal)
//@   let byte1 = (ind & 3) << 6 | u8(h.HasESCR) << 5 | u8(h.HasESRate) << 4 | u8(h.HasDSMTrickMode) << 3 | u8(h.HasAdditionalCopyInfo) << 2 | u8(h.HasExtension)
//@   split h.HasExtension, ind == 2, ind == 3, h.HasESCR, h.HasPSTDBuffer, h.HasExtension2, h.HasPrivateData
//@   at read PESOptionalHeader.PTSDTSIndicator#1 cut [W] c1: wN(w) == n0 + 3 && bytesWritten == 3 && aligned(w) && b.err == nil && h != nil
//@   at read PESOptionalHeader.PTSDTSIndicator#1 assert [C12] h0: wb(w, n0, 0) == byte0 && wb(w, n0, 1) == byte1 && wb(w, n0, 2) == u8(ohData(h))
//@   at read PESOptionalHeader.PTSDTSIndicator#2 cut [W] c2: wN(w) == n0 + 3 + ite(ind == 2, 5, 0) && bytesWritten == 3 + ite(ind == 2, 5, 0) && aligned(w) && b.err == nil && h != nil
//@   at read PESOptionalHeader.HasESCR#1 cut [W] c3: wN(w) == n0 + oESCR && bytesWritten == oESCR && aligned(w) && b.err == nil && h != nil
//@   at read PESOptionalHeader.HasESRate#1 cut [W] c4: wN(w) == n0 + oRate && bytesWritten == oRate && aligned(w) && b.err == nil && h != nil
//@   at read PESOptionalHeader.HasDSMTrickMode#1 cut [W] c5: wN(w) == n0 + oTrick && bytesWritten == oTrick && aligned(w) && b.err == nil && h != nil
//@   at read PESOptionalHeader.HasAdditionalCopyInfo#1 cut [W] c6: wN(w) == n0 + oCopy && bytesWritten == oCopy && aligned(w) && b.err == nil && h != nil
//@   at read PESOptionalHeader.HasCRC#0 cut [W] c7: wN(w) == n0 + oExtF && bytesWritten == oExtF && aligned(w) && b.err == nil && h != nil
//@   at read PESOptionalHeader.HasExtension#1 cut [W] c8: wN(w) == n0 + oExtF && bytesWritten == oExtF && aligned(w) && b.err == nil && h != nil
//@   at read PESOptionalHeader.HasPrivateData#1 cut [W] c9: wN(w) == n0 + oPD && bytesWritten == oPD && aligned(w) && b.err == nil && h != nil && h.HasExtension
//@   at read PESOptionalHeader.HasPackHeaderField#0 cut [W] c10: wN(w) == n0 + oSeq && bytesWritten == oSeq && aligned(w) && b.err == nil && h != nil && h.HasExtension
//@   at read PESOptionalHeader.HasProgramPacketSequenceCounter#1 cut [W] c11: wN(w) == n0 + oSeq && bytesWritten == oSeq && aligned(w) && b.err == nil && h != nil && h.HasExtension
//@   at read PESOptionalHeader.HasPSTDBuffer#1 cut [W] c12: wN(w) == n0 + oPSTD && bytesWritten == oPSTD && aligned(w) && b.err == nil && h != nil && h.HasExtension
//@   at read PESOptionalHeader.HasExtension2#1 cut [W] c13: wN(w) == n0 + oExt2 && bytesWritten == oExt2 && aligned(w) && b.err == nil && h != nil && h.HasExtension
//@   ensures [W] nil: h == nil ==> result0 == 0 && result1 == nil && wN(w) == n0 && aligned(w)
//@   ensures [W] n: h != nil ==> result1 == nil && result0 == ohEnd(h) && wN(w) == n0 + ohEnd(h) && aligned(w)
//@   ensures [C18] surfaced: wF(w) != old(wF(w)) ==> result1 != nil

//@ func writePESHeader
//@   requires aligned(w) && h != nil && (h.OptionalHeader != nil ==> ohOK(h.OptionalHeader)) && (h.StreamID != 190 && h.StreamID != 191 ==> h.OptionalHeader != nil) && 0 <= wN(w) && wN(w) < 0x400000000000 && 0 <= payloadSize && payloadSize < 0x100000000
//@   modifies writer(w)
//@   let n0 = old(wN(w))
//@   let hasOpt = h.StreamID != 190 && h.StreamID != 191
//@   let optLen = ite(h.OptionalHeader == nil, 0, ohEnd(h.OptionalHeader))
//@   let video = h.StreamID == 0xe0 || h.StreamID == 0xfd
//@   let plen = payloadSize + ite(hasOpt, optLen, 0)
//@   let field = ite(video || plen > 0xffff, 0, plen)
//@   ensures [W] n: result1 == nil && result0 == 6 + ite(hasOpt, optLen, 0) && wN(w) == n0 + 6 + ite(hasOpt, optLen, 0) && aligned(w)
//@   at call (*astikit.BitsWriterBatch).Err#0 assert [C12,C01] start: !hasOpt ==> wb(w, n0, 0) == 0 && wb(w, n0, 1) == 0 && wb(w, n0, 2) == 1 && wb(w, n0, 3) == h.StreamID
//@   at call (*astikit.BitsWriterBatch).Err#0 assert [C12,C01] length: !hasOpt ==> wb(w, n0, 4) == u8(field >> 8) && wb(w, n0, 5) == u8(field & 0xff)
//@   at call writePESOptionalHeader#0 assert [C12,C01] startOpt: wb(w, n0, 0) == 0 && wb(w, n0, 1) == 0 && wb(w, n0, 2) == 1 && wb(w, n0, 3) == h.StreamID
//@   at call writePESOptionalHeader#0 assert [C12,C01] lengthOpt: wb(w, n0, 4) == u8(field >> 8) && wb(w, n0, 5) == u8(field & 0xff)
//@   ensures [C18] surfaced: wF(w) != old(wF(w)) ==> result1 != nil

//@ func calcPESDataLength
//@   requires h != nil && (h.OptionalHeader != nil ==> 0 <= len(h.OptionalHeader.Extension2Data) && len(h.OptionalHeader.Extension2Data) <= 127) && 0 <= len(payloadLeft)
//@   let hdr = 6 + ite(isPayloadStart, ite(h.OptionalHeader == nil, 0, 3 + ohData(h.OptionalHeader)), 0)
//@   ensures [W] total: totalBytes == hdr
//@   ensures [W] payload: payloadBytes == ite(len(payloadLeft) < bytesAvailable - hdr, len(payloadLeft), bytesAvailable - hdr)

//@ func writePESData
//@   requires aligned(w) && h != nil && (h.OptionalHeader != nil ==> ohOK(h.OptionalHeader)) && (h.StreamID != 190 && h.StreamID != 191 ==> h.OptionalHeader != nil) && 0 <= wN(w) && wN(w) < 0x400000000000 && allocated(payloadLeft) && 0 <= len(payloadLeft) && len(payloadLeft) < 0x100000000
//@   requires 0 <= bytesAvailable && bytesAvailable <= 184
//@   requires isPayloadStart ==> 6 + ite(h.StreamID != 190 && h.StreamID != 191, ite(h.OptionalHeader == nil, 0, 3 + ohData(h.OptionalHeader)), 0) <= bytesAvailable
//@   modifies writer(w)
//@   let n0 = old(wN(w))
//@   let hasOpt = h.StreamID != 190 && h.StreamID != 191
//@   let hdr = ite(isPayloadStart, 6 + ite(hasOpt, ite(h.OptionalHeader == nil, 0, 3 + ohData(h.OptionalHeader)), 0), 0)
//@   let np = ite(bytesAvailable - hdr > len(payloadLeft), len(payloadLeft), bytesAvailable - hdr)
//@   ensures [W] n: err == nil && payloadBytesWritten == np && totalBytesWritten == hdr + np && wN(w) == n0 + hdr + np && aligned(w)
//@   ensures [C12,C01,C16] data: sub(wD(w), n0 + hdr, np) == bytesOf(payloadLeft[:np])
//@   ensures [C18] surfaced: wF(w) != old(wF(w)) ==> err != nil

// ---------------------------------------------------------------------------
// No-panic sweep (C03): skeleton contracts for the remaining parsers. Each requires a valid
// iterator, may only move it, and keeps it valid through its loops.

//@ func newDescriptorAC3
//@   requires itOK(i) && i.offset < offsetEnd && offsetEnd <= i.offset + 255
//@   modifies i.offset
//@   opt sweep:C03

//@ func newDescriptorAVCVideo
//@   requires itOK(i)
//@   modifies i.offset
//@   opt sweep:C03

//@ func newDescriptorComponent
//@   requires itOK(i) && i.offset < offsetEnd && offsetEnd <= i.offset + 255
//@   modifies i.offset
//@   opt sweep:C03

//@ func newDescriptorContent
//@   requires itOK(i) && i.offset < offsetEnd && offsetEnd <= i.offset + 255
//@   modifies i.offset
//@   loop 0 invariant itOK(i)
//@   loop 0 decreases [C03] len(i.bs) + 0x100000 - i.offset
//@   opt sweep:C03

//@ func newDescriptorDataStreamAlignment
//@   requires itOK(i)
//@   modifies i.offset
//@   opt sweep:C03

//@ func newDescriptorEnhancedAC3
//@   requires itOK(i) && i.offset < offsetEnd && offsetEnd <= i.offset + 255
//@   modifies i.offset
//@   opt sweep:C03

//@ func newDescriptorExtendedEvent
//@   requires itOK(i)
//@   modifies i.offset
//@   loop 0 invariant itOK(i) && old(i.offset) <= i.offset
//@   loop 0 decreases [C03] len(i.bs) + 0x100000 - i.offset
//@   opt sweep:C03

//@ func newDescriptorExtendedEventItem
//@   requires itOK(i)
//@   modifies i.offset
//@   opt sweep:C03
//@   ensures [C03] bound: err == nil ==> old(i.offset) <= i.offset && i.offset <= len(i.bs) + 0x10000
//@   ensures [C03] adv: err == nil ==> i.offset > old(i.offset)

//@ extern newDescriptorExtension
//@   requires itOK(i)
//@   modifies i.offset

//@ func newDescriptorExtensionSupplementaryAudio
//@   requires itOK(i) && i.offset < offsetEnd && offsetEnd <= i.offset + 255
//@   modifies i.offset
//@   opt sweep:C03

//@ func newDescriptorISO639LanguageAndAudioType
//@   requires itOK(i) && i.offset < offsetEnd && offsetEnd <= i.offset + 255
//@   modifies i.offset
//@   opt sweep:C03

//@ func newDescriptorLocalTimeOffset
//@   requires itOK(i) && i.offset < offsetEnd && offsetEnd <= i.offset + 255
//@   modifies i.offset
//@   loop 0 invariant itOK(i) && old(i.offset) <= i.offset
//@   loop 0 decreases [C03] len(i.bs) + 0x100000 - i.offset
//@   opt sweep:C03

//@ func newDescriptorMaximumBitrate
//@   requires itOK(i)
//@   modifies i.offset
//@   opt sweep:C03

//@ func newDescriptorNetworkName
//@   requires itOK(i) && i.offset < offsetEnd && offsetEnd <= i.offset + 255
//@   modifies i.offset
//@   opt sweep:C03

//@ func newDescriptorParentalRating
//@   requires itOK(i) && i.offset < offsetEnd && offsetEnd <= i.offset + 255
//@   modifies i.offset
//@   loop 0 invariant itOK(i)
//@   loop 0 decreases [C03] len(i.bs) + 0x100000 - i.offset
//@   opt sweep:C03

//@ func newDescriptorPrivateDataIndicator
//@   requires itOK(i)
//@   modifies i.offset
//@   opt sweep:C03

//@ func newDescriptorPrivateDataSpecifier
//@   requires itOK(i)
//@   modifies i.offset
//@   opt sweep:C03

//@ func newDescriptorRegistration
//@   requires itOK(i) && i.offset < offsetEnd && offsetEnd <= i.offset + 255
//@   modifies i.offset
//@   opt sweep:C03

//@ func newDescriptorService
//@   requires itOK(i)
//@   modifies i.offset
//@   opt sweep:C03

//@ func newDescriptorShortEvent
//@   requires itOK(i)
//@   modifies i.offset
//@   opt sweep:C03

//@ func newDescriptorStreamIdentifier
//@   requires itOK(i)
//@   modifies i.offset
//@   opt sweep:C03

//@ func newDescriptorSubtitling
//@   requires itOK(i) && i.offset < offsetEnd && offsetEnd <= i.offset + 255
//@   modifies i.offset
//@   loop 0 invariant itOK(i)
//@   loop 0 decreases [C03] len(i.bs) + 0x100000 - i.offset
//@   opt sweep:C03

//@ func newDescriptorTeletext
//@   requires itOK(i) && i.offset < offsetEnd && offsetEnd <= i.offset + 255
//@   modifies i.offset
//@   loop 0 invariant itOK(i)
//@   loop 0 decreases [C03] len(i.bs) + 0x100000 - i.offset
//@   opt sweep:C03

//@ func newDescriptorUnknown
//@   requires itOK(i)
//@   modifies i.offset
//@   opt sweep:C03

//@ func newDescriptorVBIData
//@   requires itOK(i) && i.offset < offsetEnd && offsetEnd <= i.offset + 255
//@   modifies i.offset
//@   loop 0 invariant itOK(i)
//@   loop 0 decreases [C03] len(i.bs) + 0x100000 - i.offset
//@   loop 1 invariant itOK(i)
//@   loop 1 decreases [C03] len(i.bs) + 0x100000 - i.offset
//@   loop 2 invariant itOK(i)
//@   loop 2 decreases [C03] len(i.bs) + 0x100000 - i.offset
//@   opt sweep:C03

//@ func parseCRC32
//@   requires itOK(i)
//@   modifies i.offset
//@   opt sweep:C03
//@   let o = old(i.offset)
//@   ensures [C09,C13,C03] erriff: (err != nil) == (len(i.bs) < o + 4)
//@   ensures [C09,C13,C03] val: err == nil ==> c == old(be32(i.bs, i.offset)) && i.offset == o + 4
//@   ensures [C03] noadv: err != nil ==> i.offset == o

//@ func parseDVBTime
//@   requires itOK(i)
//@   modifies i.offset
//@   opt sweep:C03
//@   let mjd0 = int(old(be16(i.bs, i.offset)))
//@   split mjd0 & 0x8000 != 0, mjd0 & 0x4000 != 0, mjd0 & 0x2000 != 0, mjd0 & 0x1000 != 0, mjd0 & 0x800 != 0
//@   at call time.Date#0 assert [C15,THOROUGH] y1: yt == dvbY1(mjd0)
//@   at call time.Date#0 assert [C15,THOROUGH] m1: mt == dvbM1(mjd0)
//@   at call time.Date#0 assert [C15,THOROUGH] ym: $year == dvbYear(mjd0) && int($month) == dvbMonth(mjd0)
//@   at call time.Date#0 assert [C15] midnight: $hour == 0 && $min == 0 && $sec == 0 && $nsec == 0
//@   ensures [C03] bound: err == nil ==> old(i.offset) <= i.offset && i.offset <= len(i.bs) + 0x10000

//@ func parseDescriptors
//@   requires itOK(i)
//@   modifies i.offset
//@   loop 0 invariant itOK(i) && old(i.offset) <= i.offset && i.offset <= len(i.bs) + 0x1000 && (cap(o) == 0 || loopfresh(o))
//@   opt sweep:C03
//@   ensures [C03] bound: err == nil ==> old(i.offset) <= i.offset && i.offset <= len(i.bs) + 0x10000
//@   loop 0 assert [C14,C13] stride: i.offset == pre(i.offset) + 2 + int(i.bs[pre(i.offset) + 1])
//@   loop 0 decreases [C03] len(i.bs) + 0x20000 - i.offset

//@ func parseEITSection
//@   requires itOK(i)
//@   modifies i.offset
//@   loop 0 invariant itOK(i) && old(i.offset) <= i.offset && i.offset <= len(i.bs) + 0x10000
//@   loop 0 decreases [C03] len(i.bs) + 0x100000 - i.offset
//@   opt sweep:C03
//@   ensures [C03] bound: err == nil ==> old(i.offset) <= i.offset && i.offset <= len(i.bs) + 0x10000

//@ func parseNITSection
//@   requires itOK(i)
//@   modifies i.offset
//@   loop 0 invariant itOK(i) && old(i.offset) <= i.offset && i.offset <= len(i.bs) + 0x10000
//@   loop 0 decreases [C03] len(i.bs) + 0x100000 - i.offset
//@   opt sweep:C03
//@   ensures [C03] bound: err == nil ==> old(i.offset) <= i.offset && i.offset <= len(i.bs) + 0x10000

//@ func parsePATSection
//@   requires itOK(i)
//@   modifies i.offset
//@   loop 0 invariant itOK(i) && old(i.offset) <= i.offset
//@   loop 0 decreases [C03] len(i.bs) + 0x100000 - i.offset
//@   opt sweep:C03
//@   ensures [C03] bound: err == nil ==> old(i.offset) <= i.offset && i.offset <= len(i.bs) + 0x100000000

//@ func parsePMTSection
//@   requires itOK(i)
//@   modifies i.offset
//@   loop 0 invariant itOK(i) && old(i.offset) <= i.offset && i.offset <= len(i.bs) + 0x10000
//@   loop 0 decreases [C03] len(i.bs) + 0x100000 - i.offset
//@   opt sweep:C03
//@   ensures [C03] bound: err == nil ==> old(i.offset) <= i.offset && i.offset <= len(i.bs) + 0x10000

//@ func parsePSIData
//@   requires itOK(i)
//@   modifies i.offset
//@   loop 0 invariant itOK(i)
//@   loop 0 decreases [C03] len(i.bs) - i.offset
//@   opt sweep:C03

//@ func parsePSISection
//@   requires itOK(i)
//@   modifies i.offset
//@   opt sweep:C03
//@   let o = old(i.offset)
//@   let tid = u16(old(ib(i, 0)))
//@   let sl = int(u16(old(ib(i, 1)) & 0x0f) << 8 | u16(old(ib(i, 2))))
//@   let oCRC = o + 3 + sl - 4
//@   ensures [C13,C09,C03,C16] fresh: err == nil ==> s != nil && fresh(s) && s.Header != nil
//@   ensures [C13,C09,C03] stop: err == nil ==> stop == tidStop(tid)
//@   ensures [C13,C03] end: err == nil && !tidStop(tid) ==> i.offset == o + 3 + sl
//@   ensures [C03] stopoff: err == nil && tidStop(tid) ==> i.offset == o + 1
//@   ensures [C09,C13] crcfield: err == nil && !tidStop(tid) && sl > 0 && tidHasCRC(tid) ==> s.CRC32 == old(be32(i.bs, oCRC))
//@   ensures [C09] crcgate: err == nil && !tidStop(tid) && sl > 0 && tidHasCRC(tid) ==> old(crcFold(0xFFFFFFFF, i.bs[o:oCRC], 0, oCRC - o)) == old(be32(i.bs, oCRC))

//@ func parsePSISectionHeader
//@   requires itOK(i)
//@   modifies i.offset
//@   opt sweep:C03
//@   let o = old(i.offset)
//@   let tid = u16(old(ib(i, 0)))
//@   let b1 = old(ib(i, 1))
//@   let sl = u16(b1 & 0x0f) << 8 | u16(old(ib(i, 2)))
//@   ensures [C13,C09,C03,C16] fresh: err == nil ==> h != nil && fresh(h) && offsetStart == o
//@   ensures [C13,C09,C03] tid: err == nil ==> u16(h.TableID) == tid && i.offset <= len(i.bs)
//@   ensures [C13,C09,C03] stop: err == nil && tidStop(tid) ==> i.offset == o + 1
//@   ensures [C13,C09,C03] hdr: err == nil && !tidStop(tid) ==> h.SectionSyntaxIndicator == bit(b1, 0x80) && h.PrivateBit == bit(b1, 0x40) && h.SectionLength == sl && i.offset == o + 3
//@   ensures [C13,C09,C03] offs: err == nil && !tidStop(tid) ==> offsetSectionsStart == o + 3 && offsetEnd == o + 3 + int(sl) && offsetSectionsEnd == o + 3 + int(sl) - ite(tidHasCRC(tid), 4, 0)
//@   ensures [C03] noadv: err != nil ==> i.offset >= o && i.offset <= o + 1

//@ func parsePSISectionSyntax
//@   requires itOK(i) && h != nil
//@   modifies i.offset
//@   opt sweep:C03
//@   ensures [C13,C03,C16] fresh: err == nil ==> s != nil && fresh(s) && s.Data != nil
//@   ensures [C13,C03] hdr: err == nil ==> (s.Header != nil) == tidHasSyntax(u16(h.TableID))

//@ func parsePSISectionSyntaxData
//@   requires itOK(i) && h != nil && (tidHasSyntax(u16(h.TableID)) ==> sh != nil)
//@   modifies i.offset
//@   opt sweep:C03
//@   ensures [C13,C03,C16] fresh: err == nil ==> d != nil && fresh(d)

//@ func parsePSISectionSyntaxHeader
//@   requires itOK(i)
//@   modifies i.offset
//@   opt sweep:C03
//@   let o = old(i.offset)
//@   let b = old(ib(i, 2))
//@   ensures [C13,C03,C16] fresh: err == nil ==> h != nil && fresh(h) && i.offset == o + 5 && i.offset <= len(i.bs)
//@   ensures [C13] ext: err == nil ==> h.TableIDExtension == old(be16(i.bs, i.offset))
//@   ensures [C13,C17] version: err == nil ==> h.VersionNumber == b >> 1 & 0x1f && h.CurrentNextIndicator == bit(b, 0x01)
//@   ensures [C13] secnum: err == nil ==> h.SectionNumber == old(ib(i, 3)) && h.LastSectionNumber == old(ib(i, 4))
//@   ensures [C03] bound: i.offset >= o && i.offset <= o + 5

//@ func parseSDTSection
//@   requires itOK(i)
//@   modifies i.offset
//@   loop 0 invariant itOK(i) && old(i.offset) <= i.offset && i.offset <= len(i.bs) + 0x10000
//@   loop 0 decreases [C03] len(i.bs) + 0x100000 - i.offset
//@   opt sweep:C03
//@   ensures [C03] bound: err == nil ==> old(i.offset) <= i.offset && i.offset <= len(i.bs) + 0x10000

//@ func parseTOTSection
//@   requires itOK(i)
//@   modifies i.offset
//@   opt sweep:C03
//@   ensures [C03] bound: err == nil ==> old(i.offset) <= i.offset && i.offset <= len(i.bs) + 0x10000
// time package: assumed total (no panics) for every argument; results are not interpreted.
//@ extern time.Date
//@   opt pure

//@ extern (time.Time).Add
//@   opt pure

// ---------------------------------------------------------------------------
// packet_pool.go: continuity handling (ISO/IEC 13818-1 2.4.3.3)

//@ func hasDiscontinuity
//@   requires p != nil && (p.Header.HasAdaptationField ==> p.AdaptationField != nil) && 0 <= len(ps) && (len(ps) > 0 ==> ps[len(ps) - 1] != nil)
//@   let last = ps[len(ps) - 1]
//@   ensures [C06,C07,C02] disc: result == ((p.Header.HasAdaptationField && p.AdaptationField.DiscontinuityIndicator) || (len(ps) > 0 && ((p.Header.HasPayload && p.Header.ContinuityCounter != (last.Header.ContinuityCounter + 1) % 16) || (!p.Header.HasPayload && p.Header.ContinuityCounter != last.Header.ContinuityCounter))))

//@ func isSameAsPrevious
//@   requires p != nil && 0 <= len(ps) && (len(ps) > 0 ==> ps[len(ps) - 1] != nil)
//@   ensures [C06,C07,C02] same: result == (len(ps) > 0 && p.Header.HasPayload && p.Header.ContinuityCounter == ps[len(ps) - 1].Header.ContinuityCounter && sameBytes(p.Payload, ps[len(ps) - 1].Payload))

// bytes.Equal (assumed, per its documentation): true exactly when both slices have the same length and bytes.
//@ extern bytes.Equal
//@   ensures doc: result == sameBytes(a, b)


//@ func (*packetAccumulator).add
//@   requires b != nil && p != nil && (p.Header.HasAdaptationField ==> p.AdaptationField != nil)
//@   requires 0 <= len(b.q) && len(b.q) <= cap(b.q) && cap(b.q) < 0x1000000000000 && allocated(b.q) && (len(b.q) > 0 ==> b.q[len(b.q) - 1] != nil)
//@   modifies b.q
//@   let n = old(len(b.q))
//@   let last = old(b.q[len(b.q) - 1])
//@   let dup = n > 0 && p.Header.HasPayload && p.Header.ContinuityCounter == last.Header.ContinuityCounter && sameBytes(p.Payload, last.Payload)
//@   let discInd = p.Header.HasAdaptationField && p.AdaptationField.DiscontinuityIndicator
//@   let gap = n > 0 && ((p.Header.HasPayload && p.Header.ContinuityCounter != (last.Header.ContinuityCounter + 1) % 16) || (!p.Header.HasPayload && p.Header.ContinuityCounter != last.Header.ContinuityCounter))
//@   let psiPID = b.programMap != nil && (b.pid == 0 || has(b.programMap.p, u32(b.pid)))
//@   split dup, p.Header.PayloadUnitStartIndicator, discInd || gap
//@   ensures [C06] dupnoop: dup ==> len(ps) == 0 && b.q == old(b.q)
//@   ensures [C06,C02] flushps: !dup && !discInd && !gap && p.Header.PayloadUnitStartIndicator && !psiPID ==> ps == old(b.q)
//@   ensures [C06,C02] flushlen: !dup && p.Header.PayloadUnitStartIndicator && !psiPID ==> len(b.q) == 1 && fresh(b.q)
//@   ensures [C06,C02] extendlen: !dup && !discInd && !gap && !p.Header.PayloadUnitStartIndicator && !psiPID ==> len(ps) == 0 && len(b.q) == n + 1
//@   ensures [C06] gapreset: !dup && (discInd || gap) && !p.Header.PayloadUnitStartIndicator && !psiPID ==> len(ps) == 0 && len(b.q) == 1
//@   ensures [C06] gapdrop: n > 0 && p.Header.HasPayload && p.Header.ContinuityCounter != last.Header.ContinuityCounter && gap && !p.Header.PayloadUnitStartIndicator && !psiPID ==> len(b.q) == 0
//@   ensures [C06] gapstart: !dup && (discInd || gap) && p.Header.PayloadUnitStartIndicator && !psiPID ==> len(ps) == 0 && len(b.q) == 1
//@   opt noframe

//@ func newPacketAccumulator
//@   ensures [C06,C07,C20] new: result != nil && fresh(result) && result.pid == pid && result.programMap == programMap && len(result.q) == 0 && cap(result.q) == 0 && allocated(result.q)

//@ func (*packetPool).addUnlocked
//@   opt nopre
//@   requires b != nil && p != nil && b.b != nil && (p.Header.HasAdaptationField ==> p.AdaptationField != nil)
//@   requires has(b.b, u32(p.Header.PID)) ==> b.b[u32(p.Header.PID)] != nil && 0 <= len(b.b[u32(p.Header.PID)].q) && len(b.b[u32(p.Header.PID)].q) <= cap(b.b[u32(p.Header.PID)].q) && cap(b.b[u32(p.Header.PID)].q) < 0x1000000000000 && allocated(b.b[u32(p.Header.PID)].q) && (len(b.b[u32(p.Header.PID)].q) > 0 ==> b.b[u32(p.Header.PID)].q[len(b.b[u32(p.Header.PID)].q) - 1] != nil)
//@   opt noframe
//@   ensures [C06,C07] tei: p.Header.TransportErrorIndicator ==> len(ps) == 0
//@   ensures [C06,C07] nopayload: !p.Header.HasPayload ==> len(ps) == 0

// ---------------------------------------------------------------------------
// pools.go / data.go

// sync.Pool (assumed): bytesPool only ever holds *bytesPoolItem values - its New function makes one and
// bytesPooler.put, the only caller of Put, is typed to take one. The item's slice is a well-formed slice.
//@ extern (*sync.Pool).Get
//@   ensures pool: dyn(result, bytesPoolItem) && base(result) != nil && 0 <= len(as(result, bytesPoolItem).s) && len(as(result, bytesPoolItem).s) <= cap(as(result, bytesPoolItem).s) && cap(as(result, bytesPoolItem).s) < 0x1000000000000 && allocated(as(result, bytesPoolItem).s)
//@ extern (*sync.Pool).Put

// The buffer handed out has exactly the requested length: parseData and isPSIComplete build their
// iterator over payload.s, so one stale byte more would be parsed as if it had been received.
//@ func (*bytesPooler).get
//@   opt sweep:C03
//@   requires bp != nil && 0 <= size && size < 0x1000000000000
//@   modifies payload.s
//@   ensures [C09,C02,C07,C16,C03] exact: payload != nil && len(payload.s) == size && size <= cap(payload.s) && allocated(payload.s)

// isPSIComplete walks the section headers of the concatenated payloads. What is pinned down here is its verdict
// at the end of the walk: sections that end exactly with the received bytes are complete, sections that claim
// more bytes than were received are not (the walk itself - pointer field, table ids, 12-bit lengths - is
// verified for safety only).
//@ func isPSIComplete
//@   opt sweep:C03
//@   opt noframe
//@   opt nopre
//@   requires 0 <= len(ps) && len(ps) < 0x10000 && allocated(ps) && forall(k, 0, len(ps), pktOK(ps[k]))
//@   loop 0 invariant [C03,C02] sum: rangeindex == iter - 1 && iter <= len(ps) && 0 <= l && l <= iter * 0x10000
//@   loop 1 invariant [C03,C02] cp: rangeindex == iter - 1 && iter <= len(ps) && 0 <= o && o <= len(payload.s) && payload != nil && len(payload.s) == l && len(payload.s) <= cap(payload.s) && allocated(payload.s) && 0 <= l && l < 0x100000000
//@   loop 2 invariant [C03,C02] it: itOK(i) && len(i.bs) == l && 0 <= l && l < 0x100000000
//@   loop 2 decreases [C03] len(i.bs) - i.offset
//@   at return#last assert [C02] exactfit: i.offset == len(i.bs) ==> result
//@   at return#last assert [C02] overrun: i.offset > len(i.bs) ==> !result

// A PacketsParser is user code: assumed not to panic, not to touch library state, and to return a well-formed list
// (no nil entries) that it does not share with the demuxer's own buffer.
//@ extern type:astits.PacketsParser
//@   ensures [C03,C02,C07,C19] assumed: dsOK(ds) && (len(ds) > 0 ==> fresh(ds))

// toData only re-packages the parsed sections (assumed to neither fail nor touch the packets).
//@ extern (*PSIData).toData
//@   ensures [C03,C02,C07,C19] data: dsOK(result) && (len(result) > 0 ==> fresh(result))

// parseData: the unit group is parsed from exactly the bytes of its packets' payloads (the iterator handed to
// parsePSIData / parsePESData spans the pooled buffer of exactly l bytes, from offset 0), and a custom
// PacketsParser that asks to skip gets the last word: the built-in parsing is never reached.
//@ func parseData
//@   opt sweep:C03
//@   opt noframe
//@   opt nopre
//@   modifies calls(prs)
//@   requires 0 < len(ps) && len(ps) < 0x10000 && allocated(ps) && forall(k, 0, len(ps), pktOK(ps[k]))
//@   requires pm != nil && pm.p != nil
//@   loop 0 invariant [C03,C02,C09,C19,C07] sum: rangeindex == iter - 1 && iter <= len(ps) && 0 <= l && l <= iter * 0x10000
//@   loop 1 invariant [C03,C02,C09,C19,C07] cp: rangeindex == iter - 1 && iter <= len(ps) && 0 <= c && c <= len(payload.s) && payload != nil && len(payload.s) == l && len(payload.s) <= cap(payload.s) && allocated(payload.s) && 0 <= l && l < 0x100000000
//@   ensures [C03] data: err == nil ==> dsOK(ds) && (len(ds) > 0 ==> fresh(ds))
//@   ensures [C19] skipds: prs != nil && ret(prs, 2) == nil && ret(prs, 1) ==> err == nil && ds == ret(prs, 0)
//@   ensures [C19,C18] prserr: prs != nil && ret(prs, 2) != nil ==> err != nil
//@   at call (*bytesPooler).get#0 assert [C19] notskipped: prs == nil || !ret(prs, 1)
//@   at call parsePSIData#0 assert [C09,C02] span: len($i.bs) == l && $i.offset == 0
//@   at call parsePESData#0 assert [C02] span: len($i.bs) == l && $i.offset == 0

// ---------------------------------------------------------------------------
// demuxer.go / packet_buffer.go

//@ func newPacketPool
//@   ensures [C20,C07] new: result != nil && fresh(result) && result.programMap == programMap && result.b != nil && fresh(result.b) && len(result.b) == 0

// Readers (assumed, per the io documentation; the byte counter does not overflow: fewer than 2^63 bytes are read). rdPos(r) counts the bytes consumed from r, rdFail(r) the calls on r
// that returned an error other than the end-of-stream conditions io.EOF / io.ErrUnexpectedEOF; both are ghost state indexed by the reader object, so a reader that is also an
// io.Seeker shares them. Read may return fewer bytes than asked for without an error; ReadFull may not.
//@ extern (io.Reader).Read
//@   modifies rdPos(recv), rdFail(recv), elems(p)
//@   ensures [C08,C18,C20,C03] doc: 0 <= n && n <= len(p) && rdPos(recv) == old(rdPos(recv)) + n && rdPos(recv) >= old(rdPos(recv))
//@   ensures [C08,C18,C20,C03] fail: (err != nil && err != io_EOF && err != io_ErrUnexpectedEOF) == (rdFail(recv) != old(rdFail(recv))) && rdFail(recv) >= old(rdFail(recv)) && (rdFail(recv) != old(rdFail(recv)) ==> !is(err, io_EOF))
//@ extern io.ReadFull
//@   modifies rdPos(r), rdFail(r), rdEnded(r), elems(buf)
//@   ensures [C08,C18,C20,C03] doc: 0 <= n && n <= len(buf) && rdPos(r) == old(rdPos(r)) + n && rdPos(r) >= old(rdPos(r)) && (err == nil ==> n == len(buf))
//@   ensures [C08,C18,C20,C03] eof: (err == io_EOF || err == io_ErrUnexpectedEOF ==> rdEnded(r) != 0) && (err == nil ==> rdEnded(r) == old(rdEnded(r))) && (rdEnded(r) != old(rdEnded(r)) ==> err == io_EOF || err == io_ErrUnexpectedEOF) && (err == io_EOF ==> n == 0) && (err == io_ErrUnexpectedEOF ==> 0 < n && n < len(buf))
//@   ensures [C08,C18,C20,C03] fail: (err != nil && err != io_EOF && err != io_ErrUnexpectedEOF) == (rdFail(r) != old(rdFail(r))) && rdFail(r) >= old(rdFail(r)) && (rdFail(r) != old(rdFail(r)) ==> !is(err, io_EOF))
//@ extern io.ReadAtLeast
//@   modifies rdPos(r), rdFail(r), elems(buf)
//@   ensures [C08,C18,C20,C03] doc: 0 <= n && n <= len(buf) && rdPos(r) == old(rdPos(r)) + n && rdPos(r) >= old(rdPos(r)) && (err == nil ==> n >= min)
//@   ensures [C08,C18,C20,C03] fail: (err != nil && err != io_EOF && err != io_ErrUnexpectedEOF) == (rdFail(r) != old(rdFail(r))) && rdFail(r) >= old(rdFail(r)) && (rdFail(r) != old(rdFail(r)) ==> !is(err, io_EOF))
// bufio.Reader.Peek consumes nothing.
//@ extern (*bufio.Reader).Peek
//@   modifies rdFail(b), rdEnded(b)
//@   ensures [C08,C18,C20,C03] doc: 0 <= len(result0) && len(result0) <= n && (result1 == nil ==> len(result0) == n) && allocated(result0)
//@   ensures [C08,C18,C20,C03] fail: (result1 != nil && result1 != io_EOF) == (rdFail(b) != old(rdFail(b))) && rdFail(b) >= old(rdFail(b)) && (rdFail(b) != old(rdFail(b)) ==> !is(result1, io_EOF))
//@   ensures [C08,C18,C20,C03] eof: (result1 == io_EOF ==> rdEnded(b) != 0) && (result1 == nil ==> rdEnded(b) == old(rdEnded(b)))
// io.Seeker: seeking to offset 0 from the start reports 0 and puts the reader back at its first byte.
//@ extern (io.Seeker).Seek
//@   modifies rdPos(recv), rdFail(recv)
//@   ensures [C08,C18,C20,C03] doc: result1 == nil && offset == 0 && whence == 0 ==> result0 == 0 && rdPos(recv) == 0
//@   ensures [C08,C18,C20,C03] fail: (result1 != nil) == (rdFail(recv) != old(rdFail(recv))) && rdFail(recv) >= old(rdFail(recv)) && (result1 != nil ==> !is(result1, io_EOF)) && (rdPos(recv) == 0 || rdPos(recv) == old(rdPos(recv)))

//@ func rewind
//@   opt sweep:C03
//@   modifies rdPos(r), rdFail(r)
//@   ensures [C20,C08] notseekable: err == nil ==> n == 0 || n == -1
//@   ensures [C20,C08] seeked: err == nil && n == 0 ==> rdPos(r) == 0
//@   ensures [C08] untouched: n == -1 && err == nil ==> rdPos(r) == old(rdPos(r)) && rdFail(r) == old(rdFail(r))
//@   ensures [C18] surfaced: (err != nil) == (rdFail(r) != old(rdFail(r)))
//@   ensures [C18] mono: rdFail(r) >= old(rdFail(r))
//@   ensures [C03,C18] failnoteof: err != nil ==> !is(err, io_EOF)
//@   ensures [C03,C08] pos: rdPos(r) == 0 || rdPos(r) == old(rdPos(r))

// peek fills b with the first len(b) bytes of the stream whatever the reader's fragmentation: either nothing is
// consumed (bufio) or exactly len(b) bytes are - unless the reader failed or the stream ended first.
//@ func peek
//@   opt sweep:C03
//@   requires 0 < len(b) && len(b) <= cap(b) && len(b) < 0x10000 && allocated(b)
//@   modifies rdPos(r), rdFail(r), rdEnded(r), elems(b)
//@   ensures [C08] bufio: !shouldRewind ==> rdPos(r) == old(rdPos(r))
//@   ensures [C08] whole: shouldRewind && err == nil ==> rdPos(r) == old(rdPos(r)) + len(b) || rdEnded(r) != 0
//@   ensures [C18] surfaced: rdFail(r) != old(rdFail(r)) ==> err != nil
//@   ensures [C18] mono: rdFail(r) >= old(rdFail(r))
//@   ensures [C03] eos: err != nil && rdFail(r) == old(rdFail(r)) ==> err == io_EOF
//@   ensures [C03,C18] failnoteof: rdFail(r) != old(rdFail(r)) ==> !is(err, io_EOF)
//@   ensures [C03] progress: shouldRewind && err == nil ==> rdPos(r) > old(rdPos(r))
//@   ensures [C03,C08] posmono: rdPos(r) >= old(rdPos(r))
//@   ensures [C03] ended: err == nil && (!shouldRewind || rdPos(r) == old(rdPos(r)) + len(b)) ==> rdEnded(r) == old(rdEnded(r))

// autoDetectPacketSize: on success the reader is left on a packet boundary (at its first byte, or two whole
// packets further for a reader that can neither peek nor seek), whatever the size of the reads it serves.
//@ func autoDetectPacketSize
//@   opt sweep:C03
//@   requires rdPos(r) == 0
//@   modifies rdPos(r), rdFail(r), rdEnded(r)
//@   loop 0 invariant [C08,C18,C03] scan: rangeindex == iter - 1 && iter <= 193 && rdFail(r) == old(rdFail(r))
//@   loop 0 invariant [C08] pos: (shouldRewind ==> rdPos(r) == 193 || rdEnded(r) != 0) && (!shouldRewind ==> rdPos(r) == 0)
//@   ensures [C08] size: err == nil ==> 188 <= packetSize && packetSize <= 192
//@   ensures [C08] boundary: err == nil ==> rdPos(r) == 0 || rdPos(r) == 2 * packetSize || rdEnded(r) != 0
//@   ensures [C18] surfaced: rdFail(r) != old(rdFail(r)) ==> err != nil && err != ErrPacketMustStartWithASyncByte
//@   ensures [C18] mono: rdFail(r) >= old(rdFail(r))
//@   ensures [C03] eos: err != nil && rdFail(r) == old(rdFail(r)) && rdPos(r) == 0 && rdEnded(r) != 0 && old(rdEnded(r)) == 0 ==> is(err, io_EOF)
//@   ensures [C03,C18] failnoteof: rdFail(r) != old(rdFail(r)) ==> !is(err, io_EOF)
//@   ensures [C03,C08] posmono: rdPos(r) >= 0

//@ func newPacketBuffer
//@   opt sweep:C03
//@   requires rdPos(r) == 0 && (packetSize == 0 || (188 <= packetSize && packetSize < 0x10000))
//@   ensures [C03,C08] ok: err == nil ==> pbOK(pb) && pb.r == r
//@   ensures [C03,C08] posmono: rdPos(r) >= 0
//@   ensures [C03,C18] failnoteof: rdFail(r) != old(rdFail(r)) ==> !is(err, io_EOF)
//@   ensures [C03] eos: err != nil && rdFail(r) == old(rdFail(r)) && rdPos(r) == 0 && rdEnded(r) != 0 && old(rdEnded(r)) == 0 ==> is(err, io_EOF)
//@   modifies rdPos(r), rdFail(r), rdEnded(r)
//@   ensures [C08] size: err == nil ==> pb != nil && fresh(pb) && pb.r == r && pb.s == s && pb.packetSize == ite(packetSize == 0, pb.packetSize, packetSize) && (packetSize == 0 ==> 188 <= pb.packetSize && pb.packetSize <= 192) && len(pb.packetReadBuffer) == 0 && pb.packetReadBuffer == nil
//@   ensures [C08] boundary: err == nil ==> rdPos(r) == 0 || (packetSize == 0 && (rdPos(r) == 2 * pb.packetSize || rdEnded(r) != 0))
//@   ensures [C18] surfaced: rdFail(r) != old(rdFail(r)) ==> err != nil
//@   ensures [C18] mono: rdFail(r) >= old(rdFail(r))

// next: the stream is consumed in whole packets (every completed iteration reads exactly packetSize bytes into a
// buffer of exactly that size), a reader failure is reported, and the skipper is consulted through parsePacket.
//@ func (*packetBuffer).next
//@   opt sweep:C03
//@   opt noframe
//@   opt noloopframe
//@   modifies pb.packetReadBuffer, elems(pb.packetReadBuffer), rdPos(pb.r), rdFail(pb.r), rdEnded(pb.r), calls(pb.s)
//@   requires pb != nil && 188 <= pb.packetSize && pb.packetSize < 0x10000 && 0 <= len(pb.packetReadBuffer) && len(pb.packetReadBuffer) <= cap(pb.packetReadBuffer) && allocated(pb.packetReadBuffer)
//@   loop 0 invariant [C08,C18,C03,C19] buf: pb != nil && len(pb.packetReadBuffer) == pb.packetSize && pb.packetSize == old(pb.packetSize) && 188 <= pb.packetSize && pb.packetSize < 0x10000 && len(pb.packetReadBuffer) <= cap(pb.packetReadBuffer) && allocated(pb.packetReadBuffer) && pb.r == old(pb.r) && pb.s == old(pb.s) && rdFail(pb.r) == old(rdFail(pb.r)) && rdPos(pb.r) >= old(rdPos(pb.r)) && (iter > 0 ==> rdPos(pb.r) > old(rdPos(pb.r))) && (iter == 0 ==> p == nil)
//@   loop 0 invariant [C08,C03,C19] wf: p != nil && err == nil ==> (p.Header.HasAdaptationField ==> p.AdaptationField != nil)
//@   loop 0 assert [C08] whole: rdPos(pb.r) == pre(rdPos(pb.r)) + pb.packetSize
//@   at call io.ReadFull#0 assert [C08] whole: len($buf) == pb.packetSize
//@   ensures [C18] surfaced: rdFail(pb.r) != old(rdFail(pb.r)) ==> err != nil
//@   ensures [C08,C19,C03] packet: err == nil ==> p != nil && (p.Header.HasAdaptationField ==> p.AdaptationField != nil)
//@   ensures [C03] eos: err != nil && rdFail(pb.r) == old(rdFail(pb.r)) && rdPos(pb.r) == old(rdPos(pb.r)) ==> err == ErrNoMorePackets
//@   ensures [C03,C08] keeps: pbOK(pb) && pb.r == old(pb.r)
//@   ensures [C18,C03] mono: rdFail(pb.r) >= old(rdFail(pb.r)) && rdPos(pb.r) >= old(rdPos(pb.r))
//@   ensures [C18,C03] eofclean: err == ErrNoMorePackets ==> rdFail(pb.r) == old(rdFail(pb.r))

//@ func (*Demuxer).Rewind
//@   requires dmx != nil
//@   modifies dmx.dataBuffer, dmx.packetBuffer, dmx.packetPool, rdPos(dmx.r), rdFail(dmx.r)
//@   ensures [C20] start: err == nil && n == 0 ==> rdPos(dmx.r) == 0
//@   ensures [C20] clean: len(dmx.dataBuffer) == 0 && dmx.packetBuffer == nil && dmx.packetPool != nil && fresh(dmx.packetPool) && len(dmx.packetPool.b) == 0
//@   ensures [C20] samemap: dmx.packetPool.programMap == old(dmx.programMap) && dmx.programMap == old(dmx.programMap)
//@   ensures [C20] offset: err == nil ==> n == 0 || n == -1

// A PacketSkipper is user code: assumed not to panic and not to touch library state.
//@ extern type:astits.PacketSkipper

// ---------------------------------------------------------------------------
// muxer.go

// Pieces of the table generation that are not verified: the PAT content is collected from the program map (a map
// range). Assumed: it touches nothing but what is listed.
//@ extern (programMap).toPATDataUnlocked
//@   ensures [C04,C05,C17,C09,C13] data: result != nil && fresh(result) && 0 <= len(result.Programs) && len(result.Programs) <= 4000 && allocated(result.Programs) && forall(k, 0, len(result.Programs), result.Programs[k] != nil) && result.TransportStreamID == 0
// io.Writer (assumed, per its documentation): n bytes are accepted, all of them when no error is returned.
//@ extern (io.Writer).Write
//@   modifies sinkN(recv), sinkData(recv), sinkFails(recv)
//@   ensures [C04,C05,C17,C18] doc: 0 <= n && n <= len(p) && sinkN(recv) == old(sinkN(recv)) + n && (err == nil ==> n == len(p))

// calcPMTSectionLength only reads the PMT (its value is not specified here: the PMT section writer is not under contract).
//@ extern calcPMTSectionLength
//@   opt pure
//@ func (*Muxer).generatePAT
//@   opt noframe
//@   requires m != nil && isroot(m) && m.packetSize == 188 && 0 <= m.patVersion.value && m.patVersion.value <= 32 && m.patVersion.wrapAt == 31 && 0 <= m.patCC.value && m.patCC.value <= 16 && m.patCC.wrapAt == 15
//@   modifies m.pmUpdated, all(m.patVersion), all(m.patCC), sinkN(m.buf), sinkData(m.buf), sinkFails(m.buf), sinkN(m.patBytes), sinkData(m.patBytes), sinkFails(m.patBytes)
//@   ensures [C17] version: result == nil ==> !m.pmUpdated && m.patVersion.value == ite(old(m.pmUpdated), ite(old(m.patVersion.value) + 1 > 31, 0, old(m.patVersion.value) + 1), old(m.patVersion.value))
//@   ensures [C05] cc: result == nil ==> m.patCC.value == ite(old(m.patCC.value) + 1 > 15, 0, old(m.patCC.value) + 1)
//@   ensures [C04,C17,C05] packet: result == nil ==> sinkN(m.patBytes) == 188
//@   ensures [C04,C17,C05] keeps: m.patVersion.wrapAt == 31 && m.patCC.wrapAt == 15 && 0 <= m.patVersion.value && m.patVersion.value <= 32 && 0 <= m.patCC.value && m.patCC.value <= 16

//@ func (*Muxer).generatePMT
//@   opt noframe
//@   opt noloopframe
//@   requires m != nil && isroot(m) && m.packetSize == 188 && 0 <= m.pmtVersion.value && m.pmtVersion.value <= 32 && m.pmtVersion.wrapAt == 31 && 0 <= m.pmtCC.value && m.pmtCC.value <= 16 && m.pmtCC.wrapAt == 15
//@   requires 0 <= len(m.pmt.ElementaryStreams) && allocated(m.pmt.ElementaryStreams) && forall(k, 0, len(m.pmt.ElementaryStreams), m.pmt.ElementaryStreams[k] != nil)
//@   modifies m.pmtUpdated, all(m.pmtVersion), all(m.pmtCC), sinkN(m.buf), sinkData(m.buf), sinkFails(m.buf), sinkN(m.pmtBytes), sinkData(m.pmtBytes), sinkFails(m.pmtBytes)
//@   loop 0 invariant [C04,C05,C17] scan: rangeindex == iter - 1 && iter <= len(m.pmt.ElementaryStreams)
//@   ensures [C17] version: result == nil ==> !m.pmtUpdated && m.pmtVersion.value == ite(old(m.pmtUpdated), ite(old(m.pmtVersion.value) + 1 > 31, 0, old(m.pmtVersion.value) + 1), old(m.pmtVersion.value))
//@   ensures [C05] cc: result == nil ==> m.pmtCC.value == ite(old(m.pmtCC.value) + 1 > 15, 0, old(m.pmtCC.value) + 1)
//@   ensures [C04,C17,C05] packet: result == nil ==> sinkN(m.pmtBytes) == 188
//@   ensures [C05,C17] invalid: result == ErrPCRPIDInvalid ==> m.pmtUpdated == old(m.pmtUpdated) && m.pmtVersion.value == old(m.pmtVersion.value) && m.pmtCC.value == old(m.pmtCC.value)
//@   ensures [C17] nopcr: forall(k, 0, len(m.pmt.ElementaryStreams), m.pmt.ElementaryStreams[k].ElementaryPID != m.pmt.PCRPID) ==> result == ErrPCRPIDInvalid && m.pmtUpdated == old(m.pmtUpdated) && m.pmtVersion.value == old(m.pmtVersion.value) && m.pmtCC.value == old(m.pmtCC.value)

// WriteTables: both tables are regenerated (the PMT first, so that an invalid PCR PID is met before any PAT counter is
// consumed), then emitted PAT first; on success exactly two packets (376 bytes) have
// been handed to the output and that is the count returned; the retransmit counter, the stream list and the
// elementary-stream contexts are not touched, and the internal writer stays on a byte boundary.
//@ func (*Muxer).WriteTables
//@   opt noframe
//@   requires tablesOK(m)
//@   modifies m.pmUpdated, m.pmtUpdated, all(m.patVersion), all(m.pmtVersion), all(m.patCC), all(m.pmtCC), sinkN(m.w), sinkData(m.w), sinkFails(m.w), writer(m.bufWriter), sinkN(m.patBytes), sinkData(m.patBytes), sinkFails(m.patBytes), sinkN(m.pmtBytes), sinkData(m.pmtBytes), sinkFails(m.pmtBytes)
//@   ensures [C05,C17] pmtfail: retof("(*Muxer).generatePMT", 0) == ErrPCRPIDInvalid ==> result1 == ErrPCRPIDInvalid && sinkN(m.w) == old(sinkN(m.w)) && m.patCC.value == old(m.patCC.value) && m.pmtCC.value == old(m.pmtCC.value) && m.patVersion.value == old(m.patVersion.value) && m.pmtVersion.value == old(m.pmtVersion.value) && m.pmUpdated == old(m.pmUpdated) && m.pmtUpdated == old(m.pmtUpdated)
//@   ensures [C04,C17,C05] count: aligned(m.bufWriter) == old(aligned(m.bufWriter)) && (result1 == nil ==> sinkN(m.w) == old(sinkN(m.w)) + result0 && 0 <= result0 && result0 <= 0x100000 && m188(result0))
//@   ensures [C04,C17] two: result1 == nil ==> result0 == 376
//@   ensures [C17] current: result1 == nil ==> !m.pmUpdated && !m.pmtUpdated
//@   ensures [C05] cc: result1 == nil ==> m.patCC.value == ite(old(m.patCC.value) + 1 > 15, 0, old(m.patCC.value) + 1) && m.pmtCC.value == ite(old(m.pmtCC.value) + 1 > 15, 0, old(m.pmtCC.value) + 1)

//@ func (*Muxer).retransmitTables
//@   use m188zero
//@   requires m != nil && aligned(m.bufWriter) && tablesOK(m)
//@   modifies m.tablesRetransmitCounter, m.pmUpdated, m.pmtUpdated, all(m.patVersion), all(m.pmtVersion), all(m.patCC), all(m.pmtCC), sinkN(m.w), sinkData(m.w), sinkFails(m.w), writer(m.bufWriter), sinkN(m.patBytes), sinkData(m.patBytes), sinkFails(m.patBytes), sinkN(m.pmtBytes), sinkData(m.pmtBytes), sinkFails(m.pmtBytes)
//@   ensures [C04,C17,C05] count: aligned(m.bufWriter) && (result1 == nil ==> sinkN(m.w) == old(sinkN(m.w)) + result0 && 0 <= result0 && result0 <= 0x100000 && m188(result0))
//@   let c0 = old(m.tablesRetransmitCounter)
//@   let due = force || c0 + 1 >= m.tablesRetransmitPeriod
//@   ensures [C17] notdue: !due ==> result0 == 0 && result1 == nil && m.tablesRetransmitCounter == c0 + 1 && sinkN(m.w) == old(sinkN(m.w))
//@   ensures [C17] reset: due && result1 == nil ==> m.tablesRetransmitCounter == 0
//@   ensures [C17,C05] failed: due && result1 != nil ==> m.tablesRetransmitCounter == c0 + 1

// bytes.Buffer as the sink of the internal writer (assumed, per its documentation): Reset empties it, Bytes
// returns the bytes written since.
//@ extern (*bytes.Buffer).Reset
//@   modifies sinkN(b), sinkData(b)
//@   ensures [C04,C05,C17,C01] empty: sinkN(b) == 0
//@ extern (*bytes.Buffer).Bytes
//@   ensures [C04,C05,C17,C01] view: len(result) == sinkN(b) && 0 <= len(result) && len(result) <= cap(result) && allocated(result)

// WriteData: the PES packet is cut into whole 188-byte TS packets - every packet handed to writePacket fills its
// 188 bytes exactly (header, adaptation field with its stuffing, payload: nothing is left to 0xff padding), the
// count returned is the number of bytes emitted, the unit start indicator and the PES header go out exactly once,
// on the first packet, the tables are considered first and forced at a random access point of the PCR PID, an
// unknown PID is rejected before anything is emitted or counted, and each packet carries the freshly advanced
// continuity counter of its stream.
//@ func (*Muxer).WriteData
//@   opt noframe
//@   opt noloopframe
//@   use m188zero m188step
//@   requires 0 <= wN(m.bitsWriter) && wN(m.bitsWriter) < 0x10000000000
//@   requires tablesOK(m)
//@   requires muxOK(m) && d != nil && d.PES != nil && d.PES.Header != nil && d.PES.Header.OptionalHeader != nil && ohOK(d.PES.Header.OptionalHeader)
//@   requires allocated(d.PES.Data) && 0 <= len(d.PES.Data) && len(d.PES.Data) < 0x100000000
//@   requires d.AdaptationField != nil ==> afOK(d.AdaptationField) && d.AdaptationField.StuffingLength == 0 && !d.AdaptationField.IsOneByteStuffing && afBody(d.AdaptationField) <= 183
//@   requires has(m.esContexts, u32(d.PID)) ==> ctxOK(m.esContexts[u32(d.PID)])
//@   let hdrLen = 6 + 3 + ohData(d.PES.Header.OptionalHeader)
//@   loop 0 invariant [C04,C05,C17] mux: muxOK(m)
//@   loop 0 invariant [C04,C05,C17] ctx: ctxOK(ctx)
//@   loop 0 invariant [C04,C05,C17] pes: d.PES != nil && d.PES.Header != nil && d.PES.Header.OptionalHeader != nil && ohOK(d.PES.Header.OptionalHeader)
//@   loop 0 invariant [C04,C05,C17] af: d.AdaptationField != nil ==> afOK(d.AdaptationField) && !d.AdaptationField.IsOneByteStuffing && afBody(d.AdaptationField) - d.AdaptationField.StuffingLength <= 183 && d.AdaptationField.StuffingLength <= 184
//@   loop 0 invariant [C04,C05,C17] progress: 0 <= payloadBytesWritten && payloadBytesWritten <= len(d.PES.Data) && (writeAf ==> payloadStart && d.AdaptationField != nil && d.AdaptationField.StuffingLength == 0) && (payloadStart ==> payloadBytesWritten == 0)
//@   loop 0 invariant [C04,C05,C17] count: wN(m.bitsWriter) - bytesWritten == atentry(wN(m.bitsWriter)) - atentry(bytesWritten) && atentry(bytesWritten) <= bytesWritten && bytesWritten - atentry(bytesWritten) <= 188 * (payloadBytesWritten + 2) && 0 <= atentry(bytesWritten) && atentry(bytesWritten) <= 0x100000 && atentry(wN(m.bitsWriter)) < 0x10000200000
//@   loop 0 invariant [C04,C05,C17] whole: m188(bytesWritten)
//@   loop 0 invariant [C04,C05,C17] hdronce: payloadStart == (bytesWritten == atentry(bytesWritten))
//@   loop 0 invariant [C05] ccidle: bytesWritten == atentry(bytesWritten) ==> ctx.cc.value == atentry(ctx.cc.value)
//@   at call (*Muxer).retransmitTables#0 assert [C17] force: $force == (d.AdaptationField != nil && d.AdaptationField.RandomAccessIndicator && d.PID == m.pmt.PCRPID)
//@   at call (*Muxer).retransmitTables#0 assert [C17] first: wN(m.bitsWriter) == old(wN(m.bitsWriter))
//@   at call writePESData#0 assert [C04] hdronce: $isPayloadStart == (bytesWritten == atentry(bytesWritten))
//@   at call writePacket#* assert [C04] fills: 4 + ite($p.Header.HasAdaptationField, afBytes($p.AdaptationField), 0) + len($p.Payload) == 188
//@   at call writePacket#* assert [C04,C05] haspayload: $p.Header.HasPayload
//@   at call writePacket#0 assert [C04] pusi: $p.Header.PayloadUnitStartIndicator == (bytesWritten == atentry(bytesWritten))
//@   at call writePacket#* assert [C05] ccfresh: $p.Header.ContinuityCounter == u8(ctx.cc.value) && ctx.cc.value <= 15 && $p.Header.PID == d.PID
//@   loop 0 assert [C05] ccstep: (bytesWritten == pre(bytesWritten) || bytesWritten == pre(bytesWritten) + 188) && ctx.cc.value == ite(bytesWritten == pre(bytesWritten), pre(ctx.cc.value), ite(pre(ctx.cc.value) + 1 > 15, 0, pre(ctx.cc.value) + 1))
//@   ensures [C05] ccidle: result1 == nil && wN(m.bitsWriter) == old(wN(m.bitsWriter)) && has(m.esContexts, u32(d.PID)) ==> m.esContexts[u32(d.PID)].cc.value == old(m.esContexts[u32(d.PID)].cc.value)
//@   ensures [C04,C17] unknownpid: !has(m.esContexts, u32(d.PID)) ==> result0 == 0 && result1 == ErrPIDNotFound && wN(m.bitsWriter) == old(wN(m.bitsWriter)) && m.tablesRetransmitCounter == old(m.tablesRetransmitCounter)
//@   ensures [C04] count: result1 == nil ==> wN(m.bitsWriter) == old(wN(m.bitsWriter)) + result0
//@   ensures [C04] whole: result1 == nil ==> m188(result0)
//@   ensures [C04] stuffingreset: result1 == nil && d.AdaptationField != nil ==> d.AdaptationField.StuffingLength == 0

// NewMuxer: the tables go out with the very first data (the retransmit counter starts at the period, whatever
// the options did), and the Muxer representation invariant holds.
//@ func NewMuxer
//@   opt noframe
//@   opt noloopframe
//@   loop 0 invariant [C17,C01] untouched: rangeindex == iter - 1 && iter <= len(opts) && (iter == 0 ==> m.nextPID == 0x100)
//@   ensures [C17] start: result != nil && result.tablesRetransmitCounter == result.tablesRetransmitPeriod
//@   ensures [C17,C01] startpid: len(opts) == 0 ==> result.nextPID == 0x100
// A Muxer option is library code handed a *Muxer: it may set any of its fields.
//@ extern type:func__astits.Muxer_
//@   modifies all(arg0)

// ---------------------------------------------------------------------------
// descriptor.go, write side: the length announced for a descriptor loop is the sum of what each descriptor occupies
// (2 bytes of tag and length plus the body length, no 8-bit overflow on the way).
//@ func calcDescriptorsLength
//@   requires 0 <= len(ds) && allocated(ds) && forall(k, 0, len(ds), descOK(ds[k]) && ds[k].Tag != 0x45)
//@   loop 0 invariant [C14,C13,C09] idx: rangeindex == iter - 1 && iter <= len(ds)
//@   loop 0 assert [C14,C13,C09] step: length == pre(length) + 2 + u16(retof(calcDescriptorLength, 0))

// BEGIN generated descriptor write contracts (gen_descriptor_contracts.py)
//@ func calcDescriptorAC3Length
//@   requires d != nil ==> okAC3(d)
//@   ensures [C14,C13,C09] len: result == ite(d == nil, 0, u8(lenAC3(d)))
//@ func writeDescriptorAC3
//@   requires aligned(w) && 0 <= wN(w) && wN(w) < 0x100000000000 && okAC3(d)
//@   modifies writer(w)
//@   ensures [C14,C13,C09] body: wN(w) == old(wN(w)) + lenAC3(d) && aligned(w) && result == nil
//@   ensures [C14,C13,C09] prefix: wPrefix(w)

//@ func calcDescriptorAVCVideoLength
//@   requires d != nil ==> okAVCVideo(d)
//@   ensures [C14,C13,C09] len: result == ite(d == nil, 0, u8(lenAVCVideo(d)))
//@ func writeDescriptorAVCVideo
//@   requires aligned(w) && 0 <= wN(w) && wN(w) < 0x100000000000 && okAVCVideo(d)
//@   modifies writer(w)
//@   ensures [C14,C13,C09] body: wN(w) == old(wN(w)) + lenAVCVideo(d) && aligned(w) && result == nil
//@   ensures [C14,C13,C09] prefix: wPrefix(w)

//@ func calcDescriptorComponentLength
//@   requires d != nil ==> okComponent(d)
//@   ensures [C14,C13,C09] len: result == ite(d == nil, 0, u8(lenComponent(d)))
//@ func writeDescriptorComponent
//@   requires aligned(w) && 0 <= wN(w) && wN(w) < 0x100000000000 && okComponent(d)
//@   modifies writer(w)
//@   ensures [C14,C13,C09] body: wN(w) == old(wN(w)) + lenComponent(d) && aligned(w) && result == nil
//@   ensures [C14,C13,C09] prefix: wPrefix(w)

//@ func calcDescriptorDataStreamAlignmentLength
//@   requires d != nil ==> okDataStreamAlignment(d)
//@   ensures [C14,C13,C09] len: result == ite(d == nil, 0, u8(lenDataStreamAlignment(d)))
//@ func writeDescriptorDataStreamAlignment
//@   requires aligned(w) && 0 <= wN(w) && wN(w) < 0x100000000000 && okDataStreamAlignment(d)
//@   modifies writer(w)
//@   ensures [C14,C13,C09] body: wN(w) == old(wN(w)) + lenDataStreamAlignment(d) && aligned(w) && result == nil
//@   ensures [C14,C13,C09] prefix: wPrefix(w)

//@ func calcDescriptorEnhancedAC3Length
//@   requires d != nil ==> okEnhancedAC3(d)
//@   ensures [C14,C13,C09] len: result == ite(d == nil, 0, u8(lenEnhancedAC3(d)))
//@ func writeDescriptorEnhancedAC3
//@   requires aligned(w) && 0 <= wN(w) && wN(w) < 0x100000000000 && okEnhancedAC3(d)
//@   modifies writer(w)
//@   ensures [C14,C13,C09] body: wN(w) == old(wN(w)) + lenEnhancedAC3(d) && aligned(w) && result == nil
//@   ensures [C14,C13,C09] prefix: wPrefix(w)

//@ func calcDescriptorISO639LanguageAndAudioTypeLength
//@   requires d != nil ==> okISO639LanguageAndAudioType(d)
//@   ensures [C14,C13,C09] len: result == ite(d == nil, 0, u8(lenISO639LanguageAndAudioType(d)))
//@ func writeDescriptorISO639LanguageAndAudioType
//@   requires aligned(w) && 0 <= wN(w) && wN(w) < 0x100000000000 && okISO639LanguageAndAudioType(d)
//@   modifies writer(w)
//@   ensures [C14,C13,C09] body: wN(w) == old(wN(w)) + lenISO639LanguageAndAudioType(d) && aligned(w) && result == nil
//@   ensures [C14,C13,C09] prefix: wPrefix(w)

//@ func calcDescriptorMaximumBitrateLength
//@   requires d != nil ==> okMaximumBitrate(d)
//@   ensures [C14,C13,C09] len: result == ite(d == nil, 0, u8(lenMaximumBitrate(d)))
//@ func writeDescriptorMaximumBitrate
//@   requires aligned(w) && 0 <= wN(w) && wN(w) < 0x100000000000 && okMaximumBitrate(d)
//@   modifies writer(w)
//@   ensures [C14,C13,C09] body: wN(w) == old(wN(w)) + lenMaximumBitrate(d) && aligned(w) && result == nil
//@   ensures [C14,C13,C09] prefix: wPrefix(w)

//@ func calcDescriptorNetworkNameLength
//@   requires d != nil ==> okNetworkName(d)
//@   ensures [C14,C13,C09] len: result == ite(d == nil, 0, u8(lenNetworkName(d)))
//@ func writeDescriptorNetworkName
//@   requires aligned(w) && 0 <= wN(w) && wN(w) < 0x100000000000 && okNetworkName(d)
//@   modifies writer(w)
//@   ensures [C14,C13,C09] body: wN(w) == old(wN(w)) + lenNetworkName(d) && aligned(w) && result == nil
//@   ensures [C14,C13,C09] prefix: wPrefix(w)

//@ func calcDescriptorPrivateDataIndicatorLength
//@   requires d != nil ==> okPrivateDataIndicator(d)
//@   ensures [C14,C13,C09] len: result == ite(d == nil, 0, u8(lenPrivateDataIndicator(d)))
//@ func writeDescriptorPrivateDataIndicator
//@   requires aligned(w) && 0 <= wN(w) && wN(w) < 0x100000000000 && okPrivateDataIndicator(d)
//@   modifies writer(w)
//@   ensures [C14,C13,C09] body: wN(w) == old(wN(w)) + lenPrivateDataIndicator(d) && aligned(w) && result == nil
//@   ensures [C14,C13,C09] prefix: wPrefix(w)

//@ func calcDescriptorPrivateDataSpecifierLength
//@   requires d != nil ==> okPrivateDataSpecifier(d)
//@   ensures [C14,C13,C09] len: result == ite(d == nil, 0, u8(lenPrivateDataSpecifier(d)))
//@ func writeDescriptorPrivateDataSpecifier
//@   requires aligned(w) && 0 <= wN(w) && wN(w) < 0x100000000000 && okPrivateDataSpecifier(d)
//@   modifies writer(w)
//@   ensures [C14,C13,C09] body: wN(w) == old(wN(w)) + lenPrivateDataSpecifier(d) && aligned(w) && result == nil
//@   ensures [C14,C13,C09] prefix: wPrefix(w)

//@ func calcDescriptorRegistrationLength
//@   requires d != nil ==> okRegistration(d)
//@   ensures [C14,C13,C09] len: result == ite(d == nil, 0, u8(lenRegistration(d)))
//@ func writeDescriptorRegistration
//@   requires aligned(w) && 0 <= wN(w) && wN(w) < 0x100000000000 && okRegistration(d)
//@   modifies writer(w)
//@   ensures [C14,C13,C09] body: wN(w) == old(wN(w)) + lenRegistration(d) && aligned(w) && result == nil
//@   ensures [C14,C13,C09] prefix: wPrefix(w)

//@ func calcDescriptorServiceLength
//@   requires d != nil ==> okService(d)
//@   ensures [C14,C13,C09] len: result == ite(d == nil, 0, u8(lenService(d)))
//@ func writeDescriptorService
//@   requires aligned(w) && 0 <= wN(w) && wN(w) < 0x100000000000 && okService(d)
//@   modifies writer(w)
//@   ensures [C14,C13,C09] body: wN(w) == old(wN(w)) + lenService(d) && aligned(w) && result == nil
//@   ensures [C14,C13,C09] prefix: wPrefix(w)

//@ func calcDescriptorShortEventLength
//@   requires d != nil ==> okShortEvent(d)
//@   ensures [C14,C13,C09] len: result == ite(d == nil, 0, u8(lenShortEvent(d)))
//@ func writeDescriptorShortEvent
//@   requires aligned(w) && 0 <= wN(w) && wN(w) < 0x100000000000 && okShortEvent(d)
//@   modifies writer(w)
//@   ensures [C14,C13,C09] body: wN(w) == old(wN(w)) + lenShortEvent(d) && aligned(w) && result == nil
//@   ensures [C14,C13,C09] prefix: wPrefix(w)

//@ func calcDescriptorStreamIdentifierLength
//@   requires d != nil ==> okStreamIdentifier(d)
//@   ensures [C14,C13,C09] len: result == ite(d == nil, 0, u8(lenStreamIdentifier(d)))
//@ func writeDescriptorStreamIdentifier
//@   requires aligned(w) && 0 <= wN(w) && wN(w) < 0x100000000000 && okStreamIdentifier(d)
//@   modifies writer(w)
//@   ensures [C14,C13,C09] body: wN(w) == old(wN(w)) + lenStreamIdentifier(d) && aligned(w) && result == nil
//@   ensures [C14,C13,C09] prefix: wPrefix(w)

//@ func calcDescriptorUnknownLength
//@   requires d != nil ==> okUnknown(d)
//@   ensures [C14,C13,C09] len: result == ite(d == nil, 0, u8(lenUnknown(d)))
//@ func writeDescriptorUnknown
//@   requires aligned(w) && 0 <= wN(w) && wN(w) < 0x100000000000 && okUnknown(d)
//@   modifies writer(w)
//@   ensures [C14,C13,C09] body: wN(w) == old(wN(w)) + lenUnknown(d) && aligned(w) && result == nil
//@   ensures [C14,C13,C09] prefix: wPrefix(w)

//@ func calcDescriptorContentLength
//@   requires d != nil ==> okContent(d)
//@   ensures [C14,C13,C09] len: result == ite(d == nil, 0, u8(lenContent(d)))
//@ func writeDescriptorContent
//@   requires aligned(w) && 0 <= wN(w) && wN(w) < 0x100000000000 && okContent(d)
//@   modifies writer(w)
//@   loop 0 invariant [C14,C13,C09] items: rangeindex == iter - 1 && iter <= len(d.Items) && aligned(w) && b.err == nil && wN(w) == atentry(wN(w)) + 2 * iter && wPrefix(w)
//@   ensures [C14,C13,C09] body: wN(w) == old(wN(w)) + lenContent(d) && aligned(w) && result == nil
//@   ensures [C14,C13,C09] prefix: wPrefix(w)

//@ func calcDescriptorParentalRatingLength
//@   requires d != nil ==> okParentalRating(d)
//@   ensures [C14,C13,C09] len: result == ite(d == nil, 0, u8(lenParentalRating(d)))
//@ func writeDescriptorParentalRating
//@   requires aligned(w) && 0 <= wN(w) && wN(w) < 0x100000000000 && okParentalRating(d)
//@   modifies writer(w)
//@   loop 0 invariant [C14,C13,C09] items: rangeindex == iter - 1 && iter <= len(d.Items) && aligned(w) && b.err == nil && wN(w) == atentry(wN(w)) + 4 * iter && wPrefix(w)
//@   ensures [C14,C13,C09] body: wN(w) == old(wN(w)) + lenParentalRating(d) && aligned(w) && result == nil
//@   ensures [C14,C13,C09] prefix: wPrefix(w)

//@ func calcDescriptorSubtitlingLength
//@   requires d != nil ==> okSubtitling(d)
//@   ensures [C14,C13,C09] len: result == ite(d == nil, 0, u8(lenSubtitling(d)))
//@ func writeDescriptorSubtitling
//@   requires aligned(w) && 0 <= wN(w) && wN(w) < 0x100000000000 && okSubtitling(d)
//@   modifies writer(w)
//@   loop 0 invariant [C14,C13,C09] items: rangeindex == iter - 1 && iter <= len(d.Items) && aligned(w) && b.err == nil && wN(w) == atentry(wN(w)) + 8 * iter && wPrefix(w)
//@   ensures [C14,C13,C09] body: wN(w) == old(wN(w)) + lenSubtitling(d) && aligned(w) && result == nil
//@   ensures [C14,C13,C09] prefix: wPrefix(w)

//@ func calcDescriptorTeletextLength
//@   requires d != nil ==> okTeletext(d)
//@   ensures [C14,C13,C09] len: result == ite(d == nil, 0, u8(lenTeletext(d)))
//@ func writeDescriptorTeletext
//@   requires aligned(w) && 0 <= wN(w) && wN(w) < 0x100000000000 && okTeletext(d)
//@   modifies writer(w)
//@   loop 0 invariant [C14,C13,C09] items: rangeindex == iter - 1 && iter <= len(d.Items) && aligned(w) && b.err == nil && wN(w) == atentry(wN(w)) + 5 * iter && wPrefix(w)
//@   ensures [C14,C13,C09] body: wN(w) == old(wN(w)) + lenTeletext(d) && aligned(w) && result == nil
//@   ensures [C14,C13,C09] prefix: wPrefix(w)

//@ func calcDescriptorLocalTimeOffsetLength
//@   requires d != nil ==> okLocalTimeOffset(d)
//@   ensures [C14,C13,C09] len: result == ite(d == nil, 0, u8(lenLocalTimeOffset(d)))
//@ func writeDescriptorLocalTimeOffset
//@   requires aligned(w) && 0 <= wN(w) && wN(w) < 0x100000000000 && okLocalTimeOffset(d)
//@   modifies writer(w)
//@   loop 0 invariant [C14,C13,C09] items: rangeindex == iter - 1 && iter <= len(d.Items) && aligned(w) && b.err == nil && wN(w) == atentry(wN(w)) + 13 * iter && wPrefix(w)
//@   ensures [C14,C13,C09] body: wN(w) == old(wN(w)) + lenLocalTimeOffset(d) && aligned(w) && result == nil
//@   ensures [C14,C13,C09] prefix: wPrefix(w)

//@ func calcDescriptorUserDefinedLength
//@   requires 0 <= len(d) && len(d) <= 255
//@   ensures [C14,C13,C09] len: result == u8(len(d))
//@ func writeDescriptorUserDefined
//@   requires aligned(w) && 0 <= wN(w) && wN(w) < 0x100000000000 && 0 <= len(d) && len(d) <= 255 && allocated(d)
//@   modifies writer(w)
//@   ensures [C14,C13,C09] body: wN(w) == old(wN(w)) + len(d) && aligned(w) && result == nil
//@   ensures [C14,C13,C09] prefix: wPrefix(w)

// The body length of a descriptor as a function of its tag and content; the four tags whose writers are not under
// contract are excluded from what is claimed.
//@ func calcDescriptorLength
//@   requires descOK(d) && (d.Tag == 0x45 && d.VBIData != nil ==> okVBIData(d.VBIData))
//@   ensures [C14,C13,C09] len: tagCovered(d.Tag) ==> result == u8(dLen(d))

// writeDescriptor: the length byte announces exactly the number of body bytes that follow, for every covered tag.
//@ func writeDescriptor
//@   requires aligned(w) && 0 <= wN(w) && wN(w) < 0x080000000000
//@   requires descOK(d)
//@   requires bodyPresent(d) && dLen(d) <= 255 && (d.Tag == 0x45 ==> okVBIData(d.VBIData))
//@   modifies writer(w)
//@   let n0 = old(wN(w))
//@   ensures [C14,C13,C09] header: result1 == nil ==> wb(w, n0, 0) == d.Tag && (tagCovered(d.Tag) ==> wb(w, n0, 1) == u8(dLen(d)))
//@   ensures [C14,C13,C09] whole: tagCovered(d.Tag) && result1 == nil ==> wN(w) == n0 + 2 + dLen(d) && result0 == 2 + dLen(d) && aligned(w)
//@   ensures [C14,C13,C09] prefix: wPrefix(w)
//@   ensures [C14,C13,C09] noerr: tagCovered(d.Tag) ==> result1 == nil

// VBI data: a service occupies its id, a length byte and then one byte per line descriptor (known service ids) or one
// reserved byte. The length function and the writer advance by exactly that per service (loop assertions); with one
// service the announced length is that quantity. The descriptor is not part of dLen (no closed form for the sum).
//@ func calcDescriptorVBIDataLength
//@   requires d != nil ==> okVBIData(d)
//@   loop 0 invariant [C14,C13,C09] idx: rangeindex == iter - 1 && iter <= len(d.Services) && 0 <= ret && ret <= 257 * iter && (iter == 0 ==> ret == 0) && (iter == 1 ==> ret == vbiSvcLen(d.Services[0]))
//@   loop 0 assert [C14,C13,C09] step: ret == pre(ret) + vbiSvcLen(s)
//@   ensures [C14,C13,C09] none: d == nil || len(d.Services) == 0 ==> result == 0
//@   ensures [C14,C13,C09] one: d != nil && len(d.Services) == 1 ==> result == u8(vbiSvcLen(d.Services[0]))
//@ func writeDescriptorVBIData
//@   opt noloopframe
//@   opt noframe
//@   requires aligned(w) && 0 <= wN(w) && wN(w) < 0x100000000000 && okVBIData(d)
//@   modifies writer(w)
//@   loop 0 invariant [C14,C13,C09] idx: rangeindex == iter - 1 && iter <= len(d.Services) && aligned(w) && b.err == nil && b.w == w && wN(w) >= old(wN(w)) && wN(w) <= old(wN(w)) + 257 * iter && okVBIData(d) && wPrefix(w)
//@   loop 1 invariant [C14,C13,C09] lines: rangeindex == iter - 1 && iter <= len(item.Descriptors) && aligned(w) && b.err == nil && b.w == w && wN(w) == atentry(wN(w)) + iter && okVBIData(d) && vbiKnown(item.DataServiceID) && wPrefix(w)
//@   loop 0 assert [C14,C13,C09] step: wN(w) == pre(wN(w)) + vbiSvcLen(item)
//@   ensures [C14,C13,C09] aligned: aligned(w) && result == nil
//@   ensures [C14,C13,C09] prefix: wPrefix(w)

// Not under contract (items of variable size, nested loops, pointer-to-slice bodies): nothing is assumed about
// the lengths they compute or emit, and nothing is claimed for their tags.
//@ extern calcDescriptorExtendedEventLength
//@ extern calcDescriptorExtensionLength
//@ extern writeDescriptorExtendedEvent
//@   modifies writer(w)
//@   ensures [C14,C13,C09] prefix: wPrefix(w)
//@ extern writeDescriptorExtension
//@   modifies writer(w)
//@   ensures [C14,C13,C09] prefix: wPrefix(w)
// END generated descriptor write contracts

// writeDescriptors: the count returned is the number of bytes emitted (every descriptor occupying 2 + its length).
//@ func writeDescriptors
//@   requires aligned(w) && 0 <= wN(w) && wN(w) < 0x040000000000 && 0 <= len(ds) && len(ds) <= 4096 && allocated(ds) && forall(k, 0, len(ds), descOK(ds[k]) && bodyPresent(ds[k]) && dLen(ds[k]) <= 255 && tagCovered(ds[k].Tag))
//@   modifies writer(w)
//@   loop 0 invariant [C14,C13,C09] idx: rangeindex == iter - 1 && iter <= len(ds) && aligned(w) && wN(w) == old(wN(w)) + written && 0 <= written && written <= 257 * iter && wPrefix(w)
//@   ensures [C14,C13,C09] count: result1 == nil ==> wN(w) == old(wN(w)) + result0 && aligned(w) && wPrefix(w)
//@   ensures [C14,C13,C09] noerr: result1 == nil && 0 <= result0 && result0 <= 257 * len(ds)

// program_info_length / ES_info_length: '1111', the 12-bit length that calcDescriptorsLength computes, then the descriptors.
//@ func writeDescriptorsWithLength
//@   opt nopre
//@   requires aligned(w) && 0 <= wN(w) && wN(w) < 0x020000000000 && dsW(ds)
//@   modifies writer(w)
//@   let n0 = old(wN(w))
//@   ensures [C14,C13,C09] count: result1 == nil && wN(w) == n0 + result0 && aligned(w) && wPrefix(w) && 2 <= result0 && result0 <= 2 + 257 * len(ds)
//@   ensures [C14,C13,C09] lenfield: be16(wD(w), n0) == 0xf000 | retof(calcDescriptorsLength, 0) & 0xfff

// ---------------------------------------------------------------------------
// dvb.go, write side (C15)

// time package (assumed, per its documentation): the float accessors of a Duration truncate to the integer
// quotient (exact below 2^53 ns); the calendar accessors and Sub/Truncate are left uninterpreted.
//@ extern (time.Duration).Hours
//@   opt pure
//@   ensures [C15,C14] trunc: 0 <= d && d < 0x20000000000000 ==> 0.0 <= result && result < 9007199254740992.0 && int(result) == d / 3600000000000
//@ extern (time.Duration).Minutes
//@   opt pure
//@   ensures [C15,C14] trunc: 0 <= d && d < 0x20000000000000 ==> 0.0 <= result && result < 9007199254740992.0 && int(result) == d / 60000000000
//@ extern (time.Duration).Seconds
//@   opt pure
//@   ensures [C15,C14] trunc: 0 <= d && d < 0x20000000000000 ==> 0.0 <= result && result < 9007199254740992.0 && int(result) == d / 1000000000
//@ extern (time.Time).Year
//@   opt pure
//@ extern (time.Time).Month
//@   opt pure
//@ extern (time.Time).Day
//@   opt pure
//@ extern (time.Time).Sub
//@   opt pure
//@ extern (time.Time).Truncate
//@   opt pure

// Durations are emitted as BCD digit pairs of hours, minutes (and seconds), for every duration below 100 hours.
//@ func writeDVBDurationMinutes
//@   requires aligned(w) && 0 <= wN(w) && wN(w) < 0x400000000000
//@   modifies writer(w)
//@   let n0 = old(wN(w))
//@   ensures [C15] bytes: 0 <= d && d < 360000000000000 ==> wb(w, n0, 0) == bcdRepr(u8(d / 3600000000000)) && wb(w, n0, 1) == bcdRepr(u8(d / 60000000000 % 60))
//@   ensures [C15,C14] count: wN(w) == n0 + 2 && aligned(w) && result0 == 2 && result1 == nil && wPrefix(w)
//@ func writeDVBDurationSeconds
//@   requires aligned(w) && 0 <= wN(w) && wN(w) < 0x400000000000
//@   modifies writer(w)
//@   let n0 = old(wN(w))
//@   ensures [C15] bytes: 0 <= d && d < 360000000000000 ==> wb(w, n0, 0) == bcdRepr(u8(d / 3600000000000)) && wb(w, n0, 1) == bcdRepr(u8(d / 60000000000 % 60)) && wb(w, n0, 2) == bcdRepr(u8(d / 1000000000 % 60))
//@   ensures [C15,C14] count: wN(w) == n0 + 3 && aligned(w) && result0 == 3 && result1 == nil && wPrefix(w)

// writeDVBTime: the 16-bit date is the Modified Julian Date of the calendar day (Annex C, exact arithmetic), for
// every day from 1901 to 2099; the time of day follows in BCD; 5 bytes in all.
//@ func writeDVBTime
//@   requires aligned(w) && 0 <= wN(w) && wN(w) < 0x200000000000
//@   modifies writer(w)
//@   let n0 = old(wN(w))
//@   let Y = retof("(time.Time).Year", 0)
//@   let M = int(retof("(time.Time).Month", 0))
//@   let D = retof("(time.Time).Day", 0)
//@   ensures [C15] mjd: 1901 <= Y && Y <= 2099 && 1 <= M && M <= 12 && 1 <= D && D <= 31 ==> u16(wb(w, n0, 0)) << 8 | u16(wb(w, n0, 1)) == u16(dvbMJD(Y - 1900, M, D))
//@   ensures [C15,C14] count: wN(w) == n0 + 5 && aligned(w) && result0 == 5 && result1 == nil && wPrefix(w)

// ---------------------------------------------------------------------------
// PAT / PSI syntax header encoders (C13 write side)

// A PAT section body is 4 bytes per program: program_number, '111', 13-bit PID - in the order of d.Programs.
//@ func calcPATSectionLength
//@   requires d != nil && 0 <= len(d.Programs) && len(d.Programs) <= 4000
//@   ensures [C13,C09] len: result == u16(4 * len(d.Programs))
//@ func writePATSection
//@   requires aligned(w) && 0 <= wN(w) && wN(w) < 0x400000000000 && d != nil && 0 <= len(d.Programs) && len(d.Programs) <= 4000 && allocated(d.Programs) && forall(k, 0, len(d.Programs), d.Programs[k] != nil)
//@   modifies writer(w)
//@   let n0 = old(wN(w))
//@   loop 0 invariant [C13,C09] entries: rangeindex == iter - 1 && iter <= len(d.Programs) && aligned(w) && b.err == nil && wN(w) == n0 + 4 * iter && wPrefix(w)
//@   loop 0 invariant [C13,C09] bytes: forall(k, 0, iter, be16(wD(w), n0 + 4 * k) == d.Programs[k].ProgramNumber && be16(wD(w), n0 + 4 * k + 2) == 0xe000 | d.Programs[k].ProgramMapID & 0x1fff)
//@   ensures [C13,C09] count: wN(w) == n0 + 4 * len(d.Programs) && result0 == 4 * len(d.Programs) && result1 == nil && aligned(w) && wPrefix(w)
//@   ensures [C13,C09] bytes: forall(k, 0, len(d.Programs), be16(wD(w), n0 + 4 * k) == d.Programs[k].ProgramNumber && be16(wD(w), n0 + 4 * k + 2) == 0xe000 | d.Programs[k].ProgramMapID & 0x1fff)

// The 5-byte section syntax header: table_id_extension, '11' version current_next, section_number, last_section_number.
//@ func writePSISectionSyntaxHeader
//@   requires aligned(w) && 0 <= wN(w) && wN(w) < 0x400000000000 && h != nil
//@   modifies writer(w)
//@   let n0 = old(wN(w))
//@   ensures [C13,C09,C17] count: wN(w) == n0 + 5 && result0 == 5 && result1 == nil && aligned(w) && wPrefix(w)
//@   ensures [C13,C09,C17] bytes: be16(wD(w), n0) == h.TableIDExtension && wb(w, n0, 2) == 0xc0 | (h.VersionNumber & 0x1f) << 1 | u8(h.CurrentNextIndicator) && wb(w, n0, 3) == h.SectionNumber && wb(w, n0, 4) == h.LastSectionNumber

// A PMT section body (2.4.4.8): '111' PCR_PID, program_info_length + program descriptors, then for each stream, in
// list order: stream_type, '111' elementary_PID, ES_info_length + that stream's descriptors. Domain: at most 110
// streams and two descriptors of covered types per descriptor loop (the sizes for which the bounds below keep a section
// under 60 KiB); the precondition is an assumption on the caller's PMT at the only call site (opt nopre), and so
// is the well-formedness of each descriptor loop where it is handed to writeDescriptorsWithLength.
//@ func writePMTSection
//@   opt nopre
//@   requires aligned(w) && 0 <= wN(w) && wN(w) < 0x010000000000 && pmtOK(d)
//@   modifies writer(w)
//@   let n0 = old(wN(w))
//@   loop 0 invariant [C13,C09,C17,C04,C05] scan: rangeindex == iter - 1 && iter <= len(d.ElementaryStreams) && aligned(w) && b.err == nil && wPrefix(w) && bytesWritten == wN(w) - n0 && 4 <= bytesWritten && bytesWritten <= 520 + 520 * iter && be16(wD(w), n0) == 0xe000 | d.PCRPID & 0x1fff
//@   loop 0 assert [C13,C09,C17] stream: wN(w) == pre(wN(w)) + 3 + retof(writeDescriptorsWithLength, 0) && wb(w, pre(wN(w)), 0) == u8(es.StreamType) && be16(wD(w), pre(wN(w)) + 1) == 0xe000 | es.ElementaryPID & 0x1fff
//@   at call writeDescriptorsWithLength#0 assert [C13,C09,C17] progdesc: sameSlice($ds, d.ProgramDescriptors) && wN(w) == n0 + 2 && be16(wD(w), n0) == 0xe000 | d.PCRPID & 0x1fff
//@   at call writeDescriptorsWithLength#1 assert [C13,C09,C17] esdesc: sameSlice($ds, es.ElementaryStreamDescriptors)
//@   ensures [C13,C09,C17,C04,C05] any: result1 == nil && aligned(w) && wPrefix(w) && n0 + 4 <= wN(w) && wN(w) - n0 < 0xf000 && result0 == wN(w) - n0
//@   ensures [C13,C09,C17] pcr: be16(wD(w), n0) == 0xe000 | d.PCRPID & 0x1fff

// The body of a section: the PAT entries, the PMT body, nothing for other tables.
//@ func writePSISectionSyntaxData
//@   requires aligned(w) && 0 <= wN(w) && wN(w) < 0x200000000000 && d != nil && (tableID == 0 ==> patOK(d.PAT)) && (tableID == 2 ==> d.PMT != nil)
//@   modifies writer(w)
//@   let n0 = old(wN(w))
//@   ensures [C13,C09,C04,C05,C17] any: aligned(w) && wPrefix(w) && n0 <= wN(w) && wN(w) - n0 < 0xf000 && (result1 == nil ==> result0 == wN(w) - n0) && result1 != ErrPCRPIDInvalid
//@   ensures [C13,C09] pat: tableID == 0 ==> result1 == nil && wN(w) == n0 + 4 * len(d.PAT.Programs) && forall(k, 0, len(d.PAT.Programs), be16(wD(w), n0 + 4 * k) == d.PAT.Programs[k].ProgramNumber && be16(wD(w), n0 + 4 * k + 2) == 0xe000 | d.PAT.Programs[k].ProgramMapID & 0x1fff)
//@   ensures [C13,C09] other: tableID != 0 && tableID != 2 ==> result1 == nil && wN(w) == n0

// Syntax header (5 bytes, for the tables that have one) followed by the body.
//@ func writePSISectionSyntax
//@   requires aligned(w) && 0 <= wN(w) && wN(w) < 0x100000000000 && secOK(s) && s.Syntax != nil && s.Syntax.Data != nil && (tidHasSyntax(u16(s.Header.TableID)) ==> s.Syntax.Header != nil)
//@   modifies writer(w)
//@   let n0 = old(wN(w))
//@   let tid = u16(s.Header.TableID)
//@   let h = s.Syntax.Header
//@   let P = s.Syntax.Data.PAT
//@   ensures [C13,C09,C04,C05,C17] any: aligned(w) && wPrefix(w) && n0 <= wN(w) && wN(w) - n0 < 0xf008 && (result1 == nil ==> result0 == wN(w) - n0) && result1 != ErrPCRPIDInvalid
//@   ensures [C13,C09,C17] synhdr: result1 == nil && tidHasSyntax(tid) ==> wN(w) >= n0 + 5 && be16(wD(w), n0) == h.TableIDExtension && wb(w, n0, 2) == 0xc0 | (h.VersionNumber & 0x1f) << 1 | u8(h.CurrentNextIndicator) && wb(w, n0, 3) == h.SectionNumber && wb(w, n0, 4) == h.LastSectionNumber
//@   ensures [C13,C09] pat: tid == 0 ==> result1 == nil && wN(w) == n0 + 5 + 4 * len(P.Programs) && forall(k, 0, len(P.Programs), be16(wD(w), n0 + 5 + 4 * k) == P.Programs[k].ProgramNumber && be16(wD(w), n0 + 5 + 4 * k + 2) == 0xe000 | P.Programs[k].ProgramMapID & 0x1fff)

// A whole section (ISO/IEC 13818-1 2.4.4.1/2.4.4.3/2.4.4.8): table_id, syntax indicator, private bit, '11', 12-bit
// section_length; then - when the caller's Header.SectionLength is non-zero - syntax header, body and CRC_32.
// The CRC_32 is accumulated by a write callback that the function installs on the writer (model: bitswriter.go);
// crc: the four bytes written last are CRC-32/MPEG-2 (bit-serial definition, crc.spec) of every section byte
// before them; patlen: for a PAT the announced section_length is the number of bytes written after that field.
//@ func writePSISection
//@   use crcStore
//@   split s.Header.TableID == 0, s.Header.TableID == 2, s.Header.SectionLength > 0
//@   requires aligned(w) && 0 <= wN(w) && wN(w) < 0x080000000000 && secOK(s)
//@   requires s.Header.SectionLength > 0 ==> s.Syntax != nil && s.Syntax.Data != nil && (tidHasSyntax(u16(s.Header.TableID)) ==> s.Syntax.Header != nil)
//@   modifies writer(w), w.writeCb
//@   let n0 = old(wN(w))
//@   let tid = u16(s.Header.TableID)
//@   let sl = retof(calcPSISectionLength, 0)
//@   let h = s.Syntax.Header
//@   let P = s.Syntax.Data.PAT
//@   at call (*astikit.BitsWriterBatch).Write#3 assert [C09] acc: sectionCRC32 == crcFold(0xFFFFFFFF, bseq(wD(w), n0, wN(w) - n0), 0, wN(w) - n0) && n0 + 3 <= wN(w)
//@   at call (*astikit.BitsWriterBatch).Write#3 assert [C13,C09] patmid: tid == 0 ==> wN(w) == n0 + 8 + 4 * len(P.Programs) && forall(k, 0, len(P.Programs), be16(wD(w), n0 + 8 + 4 * k) == P.Programs[k].ProgramNumber && be16(wD(w), n0 + 8 + 4 * k + 2) == 0xe000 | P.Programs[k].ProgramMapID & 0x1fff)
//@   at call (*astikit.BitsWriterBatch).Write!after#3 assert [C13,C09] patfin: tid == 0 ==> forall(k, 0, len(P.Programs), be16(wD(w), n0 + 8 + 4 * k) == P.Programs[k].ProgramNumber && be16(wD(w), n0 + 8 + 4 * k + 2) == 0xe000 | P.Programs[k].ProgramMapID & 0x1fff)
//@   at call (*astikit.BitsWriterBatch).Write!after#3 assert [C09] fin: n0 + 7 <= wN(w) && be32(wD(w), wN(w) - 4) == crcFold(0xFFFFFFFF, bseq(wD(w), n0, wN(w) - 4 - n0), 0, wN(w) - 4 - n0)
//@   ensures [C13,C09,C04,C05,C17] any: aligned(w) && wPrefix(w) && n0 <= wN(w) && wN(w) - n0 < 0xf010 && (result1 == nil ==> result0 == wN(w) - n0) && result1 != ErrPCRPIDInvalid
//@   ensures [C13,C09] unimpl: tid != 0 && tid != 2 ==> result1 != nil && result0 == 0 && wN(w) == n0
//@   ensures [C13,C09] header: result1 == nil ==> wN(w) >= n0 + 3 && wb(w, n0, 0) == u8(tid) && be16(wD(w), n0 + 1) == u16(ite(s.Header.SectionSyntaxIndicator, 0x8000, 0)) | u16(ite(s.Header.PrivateBit, 0x4000, 0)) | 0x3000 | sl & 0xfff
//@   ensures [C13,C09] empty: result1 == nil && s.Header.SectionLength == 0 ==> wN(w) == n0 + 3
//@   ensures [C13,C09,C17] synhdr: result1 == nil && s.Header.SectionLength > 0 ==> wN(w) >= n0 + 12 && be16(wD(w), n0 + 3) == h.TableIDExtension && wb(w, n0, 5) == 0xc0 | (h.VersionNumber & 0x1f) << 1 | u8(h.CurrentNextIndicator) && wb(w, n0, 6) == h.SectionNumber && wb(w, n0, 7) == h.LastSectionNumber
//@   ensures [C13,C09] patlen: tid == 0 && s.Header.SectionLength > 0 ==> result1 == nil && sl == u16(9 + 4 * len(P.Programs)) && wN(w) == n0 + 3 + 9 + 4 * len(P.Programs)
// (the PAT entries in the output are asserted right after the last write, the CRC: patfin - only b.Err() follows it)
//@   ensures [C09] crc: result1 == nil && s.Header.SectionLength > 0 ==> be32(wD(w), wN(w) - 4) == crcFold(0xFFFFFFFF, bseq(wD(w), n0, wN(w) - 4 - n0), 0, wN(w) - 4 - n0)
//@   ensures [C09,C13] cboff: result1 == nil ==> w.writeCb == nil

// pointer_field, that many filler bytes, then the sections one after the other.
//@ func writePSIData
//@   requires aligned(w) && 0 <= wN(w) && wN(w) < 0x040000000000 && d != nil && 0 <= d.PointerField && d.PointerField <= 255
//@   requires 0 <= len(d.Sections) && len(d.Sections) <= 16 && allocated(d.Sections) && forall(k, 0, len(d.Sections), secOK(d.Sections[k]) && secFull(d.Sections[k]))
//@   modifies writer(w), w.writeCb
//@   let n0 = old(wN(w))
//@   loop 0 invariant [C13,C09,C04,C05,C17] fill: 0 <= i && i <= d.PointerField && aligned(w) && b.err == nil && wN(w) == n0 + 1 + i && wPrefix(w) && wb(w, n0, 0) == u8(d.PointerField) && forall(k, 0, i, wb(w, n0, 1 + k) == 0)
//@   loop 1 invariant [C13,C09,C04,C05,C17] secs: rangeindex == iter - 1 && iter <= len(d.Sections) && aligned(w) && wPrefix(w) && n0 + 1 + d.PointerField <= wN(w) && bytesWritten == wN(w) - n0
//@   loop 1 invariant [C13,C09,C04,C05,C17] bound: wN(w) - n0 <= 256 + 0xf010 * iter
//@   loop 1 invariant [C13,C09,C04,C05,C17] ptr: wb(w, n0, 0) == u8(d.PointerField)
//@   ensures [C13,C09,C04,C05,C17] any: aligned(w) && wPrefix(w) && n0 <= wN(w) && wN(w) - n0 <= 256 + 0xf010 * len(d.Sections) && (result1 == nil ==> result0 == wN(w) - n0) && result1 != ErrPCRPIDInvalid
//@   ensures [C13,C09] pointer: result1 == nil ==> wN(w) >= n0 + 1 + d.PointerField && wb(w, n0, 0) == u8(d.PointerField)

// ---------------------------------------------------------------------------
// demuxer.go: NextPacket

//@ extern (context.Context).Err
//@   opt pure
//@   ensures [C03,C18,C08,C19] done: (result == nil) == (ctxDone(recv) == 0)

// NextPacket keeps the packet buffer usable (never a buffer whose size was not determined), surfaces reader
// failures, and answers ErrNoMorePackets - not some other error - when the stream has ended and the call consumed
// nothing: a caller that keeps calling either makes progress through the input or is told the stream is over.
//@ func (*Demuxer).NextPacket
//@   opt noframe
//@   modifies dmx.packetBuffer, rdPos(dmx.r), rdFail(dmx.r), rdEnded(dmx.r), calls(dmx.optPacketSkipper)
//@   requires dmx != nil && (dmx.packetBuffer == nil ==> rdPos(dmx.r) == 0 && rdEnded(dmx.r) == 0) && (dmx.packetBuffer != nil ==> pbOK(dmx.packetBuffer) && dmx.packetBuffer.r == dmx.r)
//@   requires dmx.optPacketSize == 0 || (188 <= dmx.optPacketSize && dmx.optPacketSize < 0x10000)
//@   ensures [C03,C08] pbinv: dmx.packetBuffer != nil ==> pbOK(dmx.packetBuffer) && dmx.packetBuffer.r == dmx.r
//@   ensures [C18] surfaced: rdFail(dmx.r) != old(rdFail(dmx.r)) ==> err != nil
//@   ensures [C03] eos: err != nil && ctxDone(dmx.ctx) == 0 && rdEnded(dmx.r) != 0 && rdPos(dmx.r) == old(rdPos(dmx.r)) && rdFail(dmx.r) == old(rdFail(dmx.r)) ==> err == ErrNoMorePackets
//@   ensures [C19,C08,C03] packet: err == nil ==> p != nil && (p.Header.HasAdaptationField ==> p.AdaptationField != nil) && dmx.packetBuffer != nil
//@   ensures [C18,C03] eofclean: err == ErrNoMorePackets ==> rdFail(dmx.r) == old(rdFail(dmx.r))
//@   ensures [C03,C18] keeps: dmx.r == old(dmx.r) && dmx.packetPool == old(dmx.packetPool) && dmx.programMap == old(dmx.programMap) && dmx.optPacketsParser == old(dmx.optPacketsParser) && dmx.optPacketSize == old(dmx.optPacketSize) && rdFail(dmx.r) >= old(rdFail(dmx.r))

// ---------------------------------------------------------------------------
// Stream list maintenance (C17: the PMT is regenerated after every change of the stream list)

//@ func (*Muxer).SetPCRPID
//@   requires m != nil
//@   modifies m.pmtUpdated, all(m.pmt)
//@   ensures [C17] dirty: m.pmt.PCRPID == pid && m.pmtUpdated

// AddElementaryStream: a PID already in the list is refused and nothing changes; otherwise the stream is appended,
// gets a context with a fresh continuity counter, and the PMT is marked for regeneration. A PID of 0 is replaced by
// the next automatic one.
//@ func (*Muxer).AddElementaryStream
//@   opt noframe
//@   opt noloopframe
//@   requires m != nil && m.esContexts != nil && 0 <= len(m.pmt.ElementaryStreams) && len(m.pmt.ElementaryStreams) <= cap(m.pmt.ElementaryStreams) && cap(m.pmt.ElementaryStreams) < 0x100000000 && allocated(m.pmt.ElementaryStreams) && forall(k, 0, len(m.pmt.ElementaryStreams), m.pmt.ElementaryStreams[k] != nil)
//@   let pid0 = old(es.ElementaryPID)
//@   loop 0 invariant [C17] scan: rangeindex == iter - 1 && iter <= len(m.pmt.ElementaryStreams) && forall(k, 0, iter, m.pmt.ElementaryStreams[k].ElementaryPID != pid0)
//@   ensures [C17] dup: pid0 != 0 && exists(k, 0, old(len(m.pmt.ElementaryStreams)), old(m.pmt.ElementaryStreams[k].ElementaryPID) == pid0) ==> result == ErrPIDAlreadyExists && len(m.pmt.ElementaryStreams) == old(len(m.pmt.ElementaryStreams)) && m.pmtUpdated == old(m.pmtUpdated) && m.nextPID == old(m.nextPID)
//@   ensures [C17] added: result == nil ==> m.pmtUpdated && len(m.pmt.ElementaryStreams) == old(len(m.pmt.ElementaryStreams)) + 1
//@   ensures [C17] ctx: result == nil ==> has(m.esContexts, u32(ite(pid0 == 0, old(m.nextPID), pid0))) && m.esContexts[u32(ite(pid0 == 0, old(m.nextPID), pid0))] != nil && m.esContexts[u32(ite(pid0 == 0, old(m.nextPID), pid0))].cc.value == 16 && m.esContexts[u32(ite(pid0 == 0, old(m.nextPID), pid0))].cc.wrapAt == 15
//@   ensures [C17] auto: result == nil && pid0 == 0 ==> m.nextPID == old(m.nextPID) + 1
//@   ensures [C17] explicit: pid0 != 0 ==> m.nextPID == old(m.nextPID)

// RemoveElementaryStream: an unknown PID is refused and nothing changes; otherwise the list shrinks by one, the
// context is gone (WriteData then answers ErrPIDNotFound) and the PMT is marked for regeneration.
//@ func (*Muxer).RemoveElementaryStream
//@   opt noframe
//@   opt noloopframe
//@   requires m != nil && m.esContexts != nil && 0 <= len(m.pmt.ElementaryStreams) && len(m.pmt.ElementaryStreams) <= cap(m.pmt.ElementaryStreams) && cap(m.pmt.ElementaryStreams) < 0x100000000 && allocated(m.pmt.ElementaryStreams) && forall(k, 0, len(m.pmt.ElementaryStreams), m.pmt.ElementaryStreams[k] != nil)
//@   loop 0 invariant [C17] scan: rangeindex == iter - 1 && iter <= len(m.pmt.ElementaryStreams) && foundIdx == -1 && forall(k, 0, iter, m.pmt.ElementaryStreams[k].ElementaryPID != pid)
//@   ensures [C17] unknown: forall(k, 0, old(len(m.pmt.ElementaryStreams)), old(m.pmt.ElementaryStreams[k].ElementaryPID) != pid) ==> result == ErrPIDNotFound && len(m.pmt.ElementaryStreams) == old(len(m.pmt.ElementaryStreams)) && m.pmtUpdated == old(m.pmtUpdated)
//@   ensures [C17] removed: result == nil ==> m.pmtUpdated && len(m.pmt.ElementaryStreams) == old(len(m.pmt.ElementaryStreams)) - 1 && !has(m.esContexts, u32(pid))
//@   ensures [C17] either: result == nil || result == ErrPIDNotFound
// insertion order is kept: the streams before the removed one stay where they were, those after it move up by one
//@   ensures [C17] which: result == nil ==> 0 <= foundIdx && foundIdx < old(len(m.pmt.ElementaryStreams)) && old(m.pmt.ElementaryStreams[foundIdx].ElementaryPID) == pid
//@   ensures [C17] kept: result == nil ==> forall(k, 0, foundIdx, m.pmt.ElementaryStreams[k] == old(m.pmt.ElementaryStreams[k]))
//@   ensures [C17] shifted: result == nil ==> forall(k, foundIdx, len(m.pmt.ElementaryStreams), m.pmt.ElementaryStreams[k] == old(m.pmt.ElementaryStreams[k + 1]))

// ---------------------------------------------------------------------------
// demuxer.go: NextData

// Not under contract: the end-of-stream dump of the pool and the program map bookkeeping (assumed to touch only the
// pool's map, the data buffer and the program map).
//@ extern (*packetPool).dumpUnlocked
//@   modifies mapof(b.b)
// updateData: the first datum is handed out, the others are queued behind what is already buffered, in order;
// with nothing to hand out nothing changes. (The program map update is verified for safety only.)
//@ func (*Demuxer).updateData
//@   opt noframe
//@   opt noloopframe
//@   modifies dmx.dataBuffer, elems(dmx.dataBuffer), mapof(dmx.programMap.p)
//@   requires dmx != nil && dmx.programMap != nil && dmx.programMap.p != nil && 0 <= len(dmx.dataBuffer) && len(dmx.dataBuffer) <= cap(dmx.dataBuffer) && cap(dmx.dataBuffer) < 0x1000000000000 && allocated(dmx.dataBuffer)
//@   requires (len(ds) > 0 ==> base(ds) != base(dmx.dataBuffer)) && dsOK(ds)
//@   loop 0 invariant [C03,C02,C07] outer: rangeindex == iter - 1 && iter <= len(ds) && dmx.programMap != nil && dmx.programMap.p != nil && dmx.programMap == old(dmx.programMap) && len(dmx.dataBuffer) == old(len(dmx.dataBuffer)) + len(ds) - 1 && d == ds[0]
//@   loop 1 invariant [C03,C02,C07] inner: rangeindex == iter - 1 && iter <= len(v.PAT.Programs) && dmx.programMap != nil && dmx.programMap.p != nil && dmx.programMap == old(dmx.programMap) && len(dmx.dataBuffer) == old(len(dmx.dataBuffer)) + len(ds) - 1 && d == ds[0] && v != nil && v.PAT != nil && 0 <= len(v.PAT.Programs) && allocated(v.PAT.Programs) && forall(j, 0, len(v.PAT.Programs), v.PAT.Programs[j] != nil)
//@   ensures [C02,C07] first: len(ds) > 0 ==> d == ds[0] && len(dmx.dataBuffer) == old(len(dmx.dataBuffer)) + len(ds) - 1
//@   ensures [C02,C07] none: len(ds) == 0 ==> d == nil && len(dmx.dataBuffer) == old(len(dmx.dataBuffer)) && dmx.dataBuffer == old(dmx.dataBuffer)
//@   ensures [C02,C07] keeps: dmx.programMap == old(dmx.programMap)
//@   ensures [C03,C02,C07] wf: 0 <= len(dmx.dataBuffer) && len(dmx.dataBuffer) <= cap(dmx.dataBuffer) && cap(dmx.dataBuffer) < 0x1000000000000 && allocated(dmx.dataBuffer)

// NextData: buffered data first, in order, without touching the reader; a reader failure is reported; the
// packet groups go to parseData with the demuxer's own parser and program map. The preconditions of
// addUnlocked and parseData (the pool-wide invariant) are assumed at these call sites, not proved.
//@ func (*Demuxer).NextData
//@   opt noframe
//@   opt noloopframe
//@   requires dmx != nil && dmx.packetPool != nil && dmx.packetPool.b != nil && dmx.programMap != nil && dmx.programMap.p != nil
//@   requires (dmx.packetBuffer == nil ==> rdPos(dmx.r) == 0 && rdEnded(dmx.r) == 0) && (dmx.packetBuffer != nil ==> pbOK(dmx.packetBuffer) && dmx.packetBuffer.r == dmx.r) && (dmx.optPacketSize == 0 || (188 <= dmx.optPacketSize && dmx.optPacketSize < 0x10000))
//@   requires 0 <= len(dmx.dataBuffer) && len(dmx.dataBuffer) <= cap(dmx.dataBuffer) && cap(dmx.dataBuffer) < 0x1000000000000 && allocated(dmx.dataBuffer)
//@   loop 0 invariant [C19,C03,C02,C07] databuf: 0 <= len(dmx.dataBuffer) && len(dmx.dataBuffer) <= cap(dmx.dataBuffer) && cap(dmx.dataBuffer) < 0x1000000000000 && allocated(dmx.dataBuffer)
//@   loop 1 invariant [C19,C03,C02,C07] databuf: 0 <= len(dmx.dataBuffer) && len(dmx.dataBuffer) <= cap(dmx.dataBuffer) && cap(dmx.dataBuffer) < 0x1000000000000 && allocated(dmx.dataBuffer)
//@   loop 0 invariant [C18,C19,C03,C02,C07] stable: dmx != nil && dmx.packetPool != nil && dmx.packetPool.b != nil && dmx.programMap != nil && dmx.programMap.p != nil && dmx.r == old(dmx.r) && dmx.packetPool == old(dmx.packetPool) && dmx.programMap == old(dmx.programMap) && dmx.optPacketsParser == old(dmx.optPacketsParser) && dmx.optPacketSize == old(dmx.optPacketSize) && rdFail(dmx.r) == old(rdFail(dmx.r))
//@   loop 0 invariant [C19,C03,C02,C07] buffer: (dmx.packetBuffer == nil ==> rdPos(dmx.r) == 0 && rdEnded(dmx.r) == 0) && (dmx.packetBuffer != nil ==> pbOK(dmx.packetBuffer) && dmx.packetBuffer.r == dmx.r)
//@   loop 1 invariant [C18,C19,C03,C02,C07] stable: dmx != nil && dmx.packetPool != nil && dmx.packetPool.b != nil && dmx.programMap != nil && dmx.programMap.p != nil && dmx.packetPool == old(dmx.packetPool) && dmx.programMap == old(dmx.programMap) && dmx.optPacketsParser == old(dmx.optPacketsParser) && dmx.r == old(dmx.r) && rdFail(dmx.r) == old(rdFail(dmx.r))
//@   at call parseData#* assert [C19] parser: $prs == dmx.optPacketsParser && $pm == dmx.programMap
//@   at call parseData#1 assert [C19,C02] dumped: $ps == retof("(*packetPool).dumpUnlocked", 0) && len($ps) != 0
//@   at call parseData#0 assert [C19,C02] group: $ps == retof("(*packetPool).addUnlocked", 0) && len($ps) != 0
//@   ensures [C02,C07] buffered: old(len(dmx.dataBuffer)) > 0 ==> d == old(dmx.dataBuffer[0]) && err == nil && len(dmx.dataBuffer) == old(len(dmx.dataBuffer)) - 1 && rdPos(dmx.r) == old(rdPos(dmx.r)) && dmx.packetPool == old(dmx.packetPool)
//@   ensures [C18] surfaced: rdFail(dmx.r) != old(rdFail(dmx.r)) ==> err != nil
