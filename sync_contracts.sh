#!/bin/bash
# Copies the master contract file into /repo and commits it there (hook commit, add-only, comment-only).
set -e
cp /verif/contracts/contracts_verif.go /repo/contracts_verif.go
cd /repo
if ! git diff --quiet -- contracts_verif.go; then
  git add contracts_verif.go
  git commit -qm "verif: update contracts_verif.go (comment-only contracts, build tag verif)"
  echo "committed contracts to /repo: $(git log --oneline | head -1)"
fi
