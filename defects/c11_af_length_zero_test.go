// Witness for known_findings.json (property C11): an adaptation field of length 0 (a single stuffing byte, legal per
// ISO 13818-1 2.4.3.4) was parsed into a PacketAdaptationField that the writer re-emits as two bytes (length 1 and a
// flags byte): a conformant packet obtained from NextPacket could not be re-emitted with Muxer.WritePacket - the
// payload no longer fitted and WritePacket failed (or, with a shorter payload, the bytes differed).
package astits

import (
	"bytes"
	"context"
	"testing"
)

func TestC11PacketWithZeroLengthAdaptationFieldIsReEmittedIdentically(t *testing.T) {
	pkt := make([]byte, 188)
	pkt[0], pkt[1], pkt[2], pkt[3] = 0x47, 0x41, 0x00, 0x30 // PID 0x100, adaptation field + payload, cc 0
	pkt[4] = 0x00                                             // adaptation_field_length = 0
	for k := 5; k < 188; k++ {
		pkt[k] = byte(k)
	}
	dmx := NewDemuxer(context.Background(), bytes.NewReader(pkt), DemuxerOptPacketSize(188))
	p, err := dmx.NextPacket()
	if err != nil {
		t.Fatal(err)
	}
	out := &bytes.Buffer{}
	m := NewMuxer(context.Background(), out)
	if _, err = m.WritePacket(p); err != nil {
		t.Fatalf("re-emitting the packet failed: %v", err)
	}
	if !bytes.Equal(out.Bytes(), pkt) {
		t.Errorf("re-emitted packet differs from the original:\n got  % x\n want % x", out.Bytes()[:8], pkt[:8])
	}
}
