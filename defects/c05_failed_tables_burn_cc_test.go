// Witness for the open known finding (*Muxer).WriteTables#post#failclean (property C05).
// WriteTables generates the PAT packet (advancing the PAT continuity counter, consuming the "updated" flag and a
// version number) before it generates the PMT. When the PMT cannot be generated - typically because the PCR PID has
// not been set to one of the streams yet - the call fails and emits nothing, but the PAT counter has been consumed:
// the first PAT that is finally written carries counter 1 (or skips one value later) although no PAT was lost.
// Repairing it needs a roll-back of counters, flags and versions on every failure path of generatePAT/generatePMT.
package astits

import (
	"bytes"
	"context"
	"testing"
)

func TestC05FailedWriteTablesLeavesCountersAlone(t *testing.T) {
	buf := &bytes.Buffer{}
	m := NewMuxer(context.Background(), buf)
	if err := m.AddElementaryStream(PMTElementaryStream{ElementaryPID: 0x100, StreamType: StreamTypeH264Video}); err != nil {
		t.Fatal(err)
	}
	// PCR PID not set yet: the tables cannot be generated, nothing is written
	if _, err := m.WriteTables(); err == nil {
		t.Fatal("expected WriteTables to fail while the PCR PID is invalid")
	}
	if buf.Len() != 0 {
		t.Fatalf("%d bytes written by a failed WriteTables", buf.Len())
	}
	m.SetPCRPID(0x100)
	if _, err := m.WriteTables(); err != nil {
		t.Fatal(err)
	}
	bs := buf.Bytes()
	if len(bs) < 188 || bs[1]&0x1f != 0 || bs[2] != 0 {
		t.Fatalf("first packet is not a PAT: % x", bs[:4])
	}
	if cc := bs[3] & 0x0f; cc != 0 {
		t.Errorf("the first PAT ever written carries continuity counter %d: a value was consumed by the call that wrote nothing", cc)
	}
}
