// Witness for known_findings.json (property C03): when packet size auto-detection failed, NextPacket kept the
// half-initialised packet buffer (packet size 0). Every later call then "read" zero bytes, failed to parse an empty
// packet and returned the same error for ever - it never reported ErrNoMorePackets and consumed no input, so a
// caller that keeps calling after errors spun. On an empty input the very first call already did so.
package astits

import (
	"bytes"
	"context"
	"testing"
)

func TestC03ErrNoMorePacketsIsReachedAfterFailedAutoDetection(t *testing.T) {
	for _, input := range [][]byte{{}, {1, 2, 3, 4, 5, 6, 7, 8, 9, 10}, bytes.Repeat([]byte{0x47}, 100)} {
		dmx := NewDemuxer(context.Background(), bytes.NewReader(input))
		reached := false
		for call := 0; call < len(input)+3; call++ {
			if _, err := dmx.NextPacket(); err == ErrNoMorePackets {
				reached = true
				break
			}
		}
		if !reached {
			t.Errorf("input of %d bytes: ErrNoMorePackets not reached after %d calls", len(input), len(input)+3)
			continue
		}
		if _, err := dmx.NextPacket(); err != ErrNoMorePackets {
			t.Errorf("input of %d bytes: call after ErrNoMorePackets returned %v", len(input), err)
		}
	}
}
