// Witness for known_findings.json (property C17): Muxer.nextPID was never initialised to startPID, so the first
// elementary stream added without an explicit PID was given PID 0x0000 - the PID of the PAT - and the tables
// announced an elementary stream on the PAT's own PID.
package astits

import (
	"bytes"
	"context"
	"testing"
)

func TestC17AutoAssignedPIDIsNotThePATPID(t *testing.T) {
	m := NewMuxer(context.Background(), &bytes.Buffer{})
	if err := m.AddElementaryStream(PMTElementaryStream{StreamType: StreamTypeH264Video}); err != nil {
		t.Fatal(err)
	}
	pid := m.pmt.ElementaryStreams[0].ElementaryPID
	if pid == PIDPAT || pid < startPID {
		t.Errorf("automatically assigned elementary PID is %#x, expected one from %#x on (0 is the PAT)", pid, startPID)
	}
}
