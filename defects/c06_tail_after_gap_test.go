// Witness for the open known finding (*packetAccumulator).add#post#gapdrop (property C06).
// After a detected gap the accumulator restarts its queue with the packet that follows the gap even when that packet
// does not start a unit; the tail is handed to parseData at the next unit start. When the tail happens to begin with
// 00 00 01 (every H.264/MPEG-2 start code does) it is parsed as a PES packet and delivered: a unit that is not in the
// loss-free output. TestPacketPool pins the tail-keeping behaviour, so this is recorded rather than repaired.
package astits

import (
	"bytes"
	"context"
	"testing"
)

func tailPkt(pid uint16, cc int, pusi bool, payload []byte) []byte {
	b := make([]byte, 0, 188)
	b0 := byte(pid>>8) & 0x1f
	if pusi {
		b0 |= 0x40
	}
	b = append(b, 0x47, b0, byte(pid), 0x10|byte(cc&0xf))
	b = append(b, payload...)
	for len(b) < 188 {
		b = append(b, 0xaa)
	}
	return b
}

func tailDemux(t *testing.T, pkts [][]byte) (out [][]byte) {
	dmx := NewDemuxer(context.Background(), bytes.NewReader(bytes.Join(pkts, nil)), DemuxerOptPacketSize(188))
	for {
		d, err := dmx.NextData()
		if err == ErrNoMorePackets {
			return
		}
		if err != nil {
			t.Fatalf("NextData: %v", err)
		}
		if d.PES != nil {
			out = append(out, d.PES.Data)
		}
	}
}

func TestC06TailAfterGapIsDeliveredAsUnit(t *testing.T) {
	pesStart := []byte{0x00, 0x00, 0x01, 0xe0, 0x00, 0x00, 0x80, 0x00, 0x00}
	// unit A: 3 packets; the elementary stream bytes of its 3rd packet begin with a start code 00 00 01 e0 ...
	a1 := tailPkt(0x100, 0, true, append(append([]byte{}, pesStart...), bytes.Repeat([]byte{0x11}, 175)...))
	a2 := tailPkt(0x100, 1, false, bytes.Repeat([]byte{0x22}, 184))
	a3 := tailPkt(0x100, 2, false, append([]byte{0x00, 0x00, 0x01, 0xe0, 0x00, 0x00, 0x80, 0x00, 0x00}, bytes.Repeat([]byte{0x33}, 175)...))
	// unit B: 1 packet, then unit C so that B is flushed
	b1 := tailPkt(0x100, 3, true, append(append([]byte{}, pesStart...), bytes.Repeat([]byte{0x44}, 175)...))
	c1 := tailPkt(0x100, 4, true, append(append([]byte{}, pesStart...), bytes.Repeat([]byte{0x55}, 175)...))

	clean := tailDemux(t, [][]byte{a1, a2, a3, b1, c1})
	faulty := tailDemux(t, [][]byte{a1, a3, b1, c1}) // a2 lost
	for _, u := range faulty {
		found := false
		for _, r := range clean {
			if bytes.Equal(r, u) {
				found = true
			}
		}
		if !found {
			t.Errorf("delivered unit (len %d, first byte %#x) is not a unit of the loss-free output", len(u), u[0])
		}
	}
}
