// Witness for the open known finding (*Muxer).WriteData#assert#loop0.ccburn (property C05).
// When the adaptation field passed to WriteData leaves no room for the PES header in the first packet, the
// iteration that discovers it has already advanced the stream's continuity counter; no packet is written for
// that value, so the first packet of the PID carries counter 1 instead of 0 and, on later calls, the counter
// skips one value per such call although no packet was lost. (The user's adaptation field is dropped as well.)
package astits

import (
	"bytes"
	"context"
	"testing"
)

func TestC05ContinuityCounterBurnedWhenAFLeavesNoRoom(t *testing.T) {
	buf := &bytes.Buffer{}
	m := NewMuxer(context.Background(), buf)
	if err := m.AddElementaryStream(PMTElementaryStream{ElementaryPID: 0x100, StreamType: StreamTypeH264Video}); err != nil {
		t.Fatal(err)
	}
	m.SetPCRPID(0x100)
	write := func(af *PacketAdaptationField) {
		_, err := m.WriteData(&MuxerData{
			PID:             0x100,
			AdaptationField: af,
			PES: &PESData{
				Header: &PESHeader{OptionalHeader: &PESOptionalHeader{MarkerBits: 2, PTSDTSIndicator: PTSDTSIndicatorOnlyPTS, PTS: &ClockReference{Base: 90000}}},
				Data:   bytes.Repeat([]byte{0xab}, 300),
			},
		})
		if err != nil {
			t.Fatal(err)
		}
	}
	big := func() *PacketAdaptationField {
		return &PacketAdaptationField{HasTransportPrivateData: true, TransportPrivateDataLength: 170, TransportPrivateData: bytes.Repeat([]byte{1}, 170)}
	}
	write(nil)
	write(big())
	write(nil)

	var ccs []uint8
	bs := buf.Bytes()
	for o := 0; o+188 <= len(bs); o += 188 {
		pid := uint16(bs[o+1]&0x1f)<<8 | uint16(bs[o+2])
		if pid == 0x100 && bs[o+3]&0x10 != 0 {
			ccs = append(ccs, bs[o+3]&0x0f)
		}
	}
	for k := 1; k < len(ccs); k++ {
		if ccs[k] != (ccs[k-1]+1)&0x0f {
			t.Errorf("continuity counters of PID 0x100 are %v: %d follows %d although every packet written is in the output", ccs, ccs[k], ccs[k-1])
			break
		}
	}
}
