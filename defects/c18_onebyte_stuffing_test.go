package astits

// Demonstration for known_findings.json: property C18, obligation
// writePacketAdaptationField#post#surfaced (one-byte stuffing form returned "1, nil"
// without consulting the batch error). Run in-package with
//   go test -overlay <overlay mapping /repo/zz_defect_test.go to this file> -run TestZZDefectC18OneByteStuffing .
// Before the fix: the failing Write is swallowed (nil error, n=188 with 187 bytes accepted).

import (
	"context"
	"errors"
	"testing"
)

type zzFailAt struct {
	calls, failAt, accepted int
}

func (w *zzFailAt) Write(p []byte) (int, error) {
	w.calls++
	if w.calls == w.failAt {
		return 0, errors.New("zz: injected write failure")
	}
	w.accepted += len(p)
	return len(p), nil
}

func TestZZDefectC18OneByteStuffing(t *testing.T) {
	// sync byte (1 write), header (3 writes), then the one-byte adaptation field: 5th write fails
	w := &zzFailAt{failAt: 5}
	m := NewMuxer(context.Background(), w)
	p := &Packet{
		Header:          PacketHeader{PID: 0x100, HasAdaptationField: true, HasPayload: true},
		AdaptationField: &PacketAdaptationField{IsOneByteStuffing: true},
		Payload:         make([]byte, 183),
	}
	n, err := m.WritePacket(p)
	if err == nil {
		t.Fatalf("writer failed on call %d but WritePacket returned nil error (n=%d, accepted=%d)", w.failAt, n, w.accepted)
	}
}
