// Witness for known_findings.json (property C14): calcDescriptorVBIDataLength announced 3 bytes per service whatever the
// number of line descriptors, while writeDescriptorVBIData emits 2 + number of descriptors bytes for the known data
// service ids: a VBI data descriptor with two lines was written as tag, length 3, then 4 body bytes.
package astits

import (
	"bytes"
	"testing"

	"github.com/asticode/go-astikit"
)

func TestC14VBIDataDescriptorLengthMatchesBody(t *testing.T) {
	buf := &bytes.Buffer{}
	w := astikit.NewBitsWriter(astikit.BitsWriterOptions{Writer: buf})
	d := &Descriptor{Tag: DescriptorTagVBIData, VBIData: &DescriptorVBIData{Services: []*DescriptorVBIDataService{{
		DataServiceID: VBIDataServiceIDEBUTeletext,
		Descriptors:   []*DescriptorVBIDataDescriptor{{FieldParity: true, LineOffset: 7}, {FieldParity: false, LineOffset: 8}},
	}}}}
	if _, err := writeDescriptor(w, d); err != nil {
		t.Fatal(err)
	}
	bs := buf.Bytes()
	if int(bs[1]) != len(bs)-2 {
		t.Errorf("descriptor_length byte announces %d body bytes, %d were written (% x)", bs[1], len(bs)-2, bs)
	}
}
