// Witness for known_findings.json (property C14): writeDescriptor decided whether to emit the descriptor body from
// the Length field of the struct (which only the parser fills in) instead of from the length it had just computed
// and announced: a descriptor built by hand (Length left at 0) was written as tag + non-zero length with no body,
// so the bytes announced by the length byte (and by the enclosing loop length) were never emitted.
package astits

import (
	"bytes"
	"testing"

	"github.com/asticode/go-astikit"
)

func TestC14DescriptorBodyFollowsAnnouncedLength(t *testing.T) {
	buf := &bytes.Buffer{}
	w := astikit.NewBitsWriter(astikit.BitsWriterOptions{Writer: buf})
	d := &Descriptor{Tag: DescriptorTagStreamIdentifier, StreamIdentifier: &DescriptorStreamIdentifier{ComponentTag: 7}}
	n, err := writeDescriptor(w, d)
	if err != nil {
		t.Fatal(err)
	}
	bs := buf.Bytes()
	if len(bs) < 2 {
		t.Fatalf("only %d bytes written", len(bs))
	}
	if int(bs[1]) != len(bs)-2 {
		t.Errorf("descriptor_length byte announces %d body bytes, %d were written (% x)", bs[1], len(bs)-2, bs)
	}
	if n != len(bs) {
		t.Errorf("writeDescriptor reports %d bytes, %d were written", n, len(bs))
	}
}
