// Witness for known_findings.json (property C08): packet size auto-detection read its 193 bytes - and, for a reader
// that can neither peek nor seek, the bytes up to the next packet boundary - with a single Read call. A reader
// that serves fewer bytes per call (a pipe, a socket, iotest.OneByteReader ...) made auto-detection fail or left
// the reader off the packet boundary. Fails before the fix, passes after.
package astits

import (
	"bytes"
	"context"
	"io"
	"testing"
)

type c08ChunkReader struct {
	r io.Reader
	n int
}

func (c *c08ChunkReader) Read(p []byte) (int, error) {
	if len(p) > c.n {
		p = p[:c.n]
	}
	return c.r.Read(p)
}

func TestC08AutoDetectionWithShortReads(t *testing.T) {
	var stream []byte
	for k := 0; k < 6; k++ {
		pkt := make([]byte, 188)
		pkt[0], pkt[1], pkt[2], pkt[3] = 0x47, 0x41, 0x00, 0x10|byte(k)
		for j := 4; j < 188; j++ {
			pkt[j] = byte(k + 1)
		}
		stream = append(stream, pkt...)
	}
	count := func(r io.Reader) (seen string, err error) {
		dmx := NewDemuxer(context.Background(), r)
		for {
			var p *Packet
			if p, err = dmx.NextPacket(); err != nil {
				if err == ErrNoMorePackets {
					err = nil
				}
				return
			}
			if p.Header.PID != 0x100 || len(p.Payload) != 184 {
				t.Fatalf("not a packet of the stream: pid %#x, %d payload bytes", p.Header.PID, len(p.Payload))
			}
			seen += string(rune('0' + p.Payload[0]))
		}
	}
	// a plain io.Reader (no Seek, no Peek) serving the whole stream: 2 packets are consumed by the detection
	want, err := count(struct{ io.Reader }{bytes.NewReader(stream)})
	if err != nil {
		t.Fatalf("reference run failed: %v", err)
	}
	for _, chunk := range []int{1, 7, 100, 187, 192} {
		got, err := count(&c08ChunkReader{r: bytes.NewReader(stream), n: chunk})
		if err != nil {
			t.Errorf("chunk size %d: %v", chunk, err)
		} else if got != want {
			t.Errorf("chunk size %d: packets %q, want %q", chunk, got, want)
		}
	}
}
