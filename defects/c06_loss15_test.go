// Witness for known_findings.json: a burst of 15 lost packets repeats the continuity counter of the packet before the gap.
// With the duplicate test in front of the discontinuity test and comparing only the counter, the packet after the gap was
// dropped as a duplicate and the unit spliced across the gap. Fails on 55fee6f, passes once payloads are compared.
package astits

import (
	"bytes"
	"context"
	"fmt"
	"testing"
)

// demoBPacket builds one 188-byte payload-only TS packet (184 bytes of payload).
func demoBPacket(pid uint16, cc int, pusi bool, payload []byte) []byte {
	if len(payload) != 184 {
		panic("payload must be 184 bytes")
	}
	b := make([]byte, 0, 188)
	b0 := byte(pid>>8) & 0x1f
	if pusi {
		b0 |= 0x40
	}
	b = append(b, 0x47, b0, byte(pid), 0x10|byte(cc&0xf))
	return append(b, payload...)
}

// demoBUnit builds the TS packets of one PES unit (PES_packet_length = 0, no PTS)
// spanning exactly n packets. Every data byte depends on (tag, position) so that
// a truncated / spliced unit can never be mistaken for a genuine one.
func demoBUnit(pid uint16, cc *int, tag byte, n int) (pkts [][]byte, data []byte) {
	pes := []byte{0x00, 0x00, 0x01, 0xe0, 0x00, 0x00, 0x80, 0x00, 0x00}
	for len(pes) < n*184 {
		pes = append(pes, tag^byte(len(pes)*7+len(pes)/184))
	}
	data = pes[9:]
	for k := 0; k < n; k++ {
		pkts = append(pkts, demoBPacket(pid, *cc, k == 0, pes[k*184:(k+1)*184]))
		*cc++
	}
	return
}

type demoBOut struct {
	pid  uint16
	data []byte
}

func demoBDemux(t *testing.T, pkts [][]byte) (out []demoBOut) {
	dmx := NewDemuxer(context.Background(), bytes.NewReader(bytes.Join(pkts, nil)), DemuxerOptPacketSize(188))
	for {
		d, err := dmx.NextData()
		if err == ErrNoMorePackets {
			return
		}
		if err != nil {
			t.Fatalf("NextData returned an error: %v", err)
		}
		if d.PES != nil {
			out = append(out, demoBOut{pid: d.PID, data: d.PES.Data})
		}
	}
}

func demoBFmt(o []demoBOut) (s string) {
	for _, u := range o {
		s += fmt.Sprintf("[pid %#x len %d first %#x] ", u.pid, len(u.data), u.data[0])
	}
	return
}

func TestDemoC06b(t *testing.T) {
	const pidV, pidA = 0x100, 0x101
	ccV, ccA := 11, 2

	// Video PID: a short unit, a long unit of 20 packets, a short unit. Audio PID: interleaved single-packet units.
	v0, _ := demoBUnit(pidV, &ccV, 0x10, 2)
	v1, _ := demoBUnit(pidV, &ccV, 0x20, 20)
	v2, _ := demoBUnit(pidV, &ccV, 0x30, 2)
	a0, _ := demoBUnit(pidA, &ccA, 0x40, 1)
	a1, _ := demoBUnit(pidA, &ccA, 0x50, 1)
	a2, _ := demoBUnit(pidA, &ccA, 0x60, 1)

	var clean [][]byte
	clean = append(clean, v0...) // 0 1
	clean = append(clean, a0...) // 2
	clean = append(clean, v1...) // 3..22
	clean = append(clean, a1...) // 23
	clean = append(clean, v2...) // 24 25
	clean = append(clean, a2...) // 26
	ref := demoBDemux(t, clean)
	if len(ref) != 6 {
		t.Fatalf("loss-free stream: expected 6 PES units, got %d", len(ref))
	}

	isRefUnit := func(u demoBOut) bool {
		for _, r := range ref {
			if r.pid == u.pid && bytes.Equal(r.data, u.data) {
				return true
			}
		}
		return false
	}

	// Lose a burst of n consecutive packets (n = 1..15, i.e. fewer than 16) in the middle of the long unit,
	// starting at its 3rd packet. At least two packets of the unit follow the gap, so the continuity counter
	// of the packet right after the gap reveals it for every n < 16.
	for n := 1; n <= 15; n++ {
		n := n
		t.Run(fmt.Sprintf("burst of %d lost packets", n), func(t *testing.T) {
			start := 3 + 2
			var faulty [][]byte
			faulty = append(faulty, clean[:start]...)
			faulty = append(faulty, clean[start+n:]...)
			got := demoBDemux(t, faulty)
			var na int
			for _, u := range got {
				if u.pid == pidA {
					na++
				}
				if !isRefUnit(u) {
					t.Errorf("delivered unit is not a unit of the loss-free output (splice across the gap): pid %#x len %d (loss-free len %d); got %s", u.pid, len(u.data), len(ref[2].data), demoBFmt(got))
				}
			}
			if na != 3 {
				t.Errorf("expected the 3 units of the unaffected PID, got %d", na)
			}
		})
	}
}
