// Witness for the open known finding writePacket#post#rejectclean (property C04).
// writePacket checks that the payload fits only after it has written the sync byte, the header and the adaptation
// field: a packet that is rejected ("can't write N bytes of payload") has already put 4 or more bytes on the wire,
// while the call reports 0 bytes written - the output is no longer a sequence of whole packets and the byte count
// returned is wrong. Repairing it means computing the adaptation field size before writing, a restructuring of
// writePacket rather than a one-line change, so it is recorded rather than repaired.
package astits

import (
	"bytes"
	"context"
	"testing"
)

func TestC04RejectedPacketEmitsNothing(t *testing.T) {
	buf := &bytes.Buffer{}
	m := NewMuxer(context.Background(), buf)
	n, err := m.WritePacket(&Packet{
		Header:  PacketHeader{PID: 0x100, HasPayload: true},
		Payload: make([]byte, 185), // one byte too many for a 188-byte packet
	})
	if err == nil {
		t.Fatal("an oversize packet must be rejected")
	}
	if n != buf.Len() {
		t.Errorf("WritePacket reports %d bytes written but %d bytes reached the writer", n, buf.Len())
	}
	if buf.Len()%188 != 0 {
		t.Errorf("%d bytes on the wire after a rejected packet: not a whole number of packets", buf.Len())
	}
}
