#!/bin/bash
# run_witness.sh <witness_test.go>: runs one witness test of /verif/defects against /repo without writing into /repo
# (go test -overlay). Witnesses of fixed findings pass on the current tree and fail on the commit before their fix;
# witnesses of open findings fail on the current tree.
f=$(cd "$(dirname "$1")" && pwd)/$(basename "$1")
ov=$(mktemp /var/tmp/witness_ov.XXXXXX.json)
echo "{\"Replace\": {\"/repo/zz_witness_test.go\": \"$f\"}}" > $ov
run=$(grep -o 'func Test[A-Za-z0-9_]*' "$f" | sed 's/func //' | paste -sd'|')
cd /repo && GOFLAGS=-mod=mod GOPROXY=off GOSUMDB=off GOTOOLCHAIN=local go test -overlay $ov -vet=off -count=1 -run "^($run)\$" . ; rc=$?
rm -f $ov
exit $rc
