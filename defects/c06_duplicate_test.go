package astits

// Demonstration for known_findings.json: property C06, obligation
// (*packetAccumulator).add#post#dupnoop. A duplicated TS packet (same continuity_counter
// repeated, as ISO/IEC 13818-1 2.4.3.3 permits) must not alter anything. Before the fix the
// discontinuity test ran first, emptied the queue, and the duplicate was then kept as the
// only packet: the unit being assembled lost its first packets.

import "testing"

func TestZZDefectC06DuplicateIsNoop(t *testing.T) {
	acc := newPacketAccumulator(0x100, newProgramMap())
	p0 := &Packet{Header: PacketHeader{PID: 0x100, HasPayload: true, PayloadUnitStartIndicator: true, ContinuityCounter: 3}, Payload: []byte{0, 0, 1, 0xe0}}
	p1 := &Packet{Header: PacketHeader{PID: 0x100, HasPayload: true, ContinuityCounter: 4}, Payload: []byte{1}}
	dup := &Packet{Header: PacketHeader{PID: 0x100, HasPayload: true, ContinuityCounter: 4}, Payload: []byte{1}}
	acc.add(p0)
	acc.add(p1)
	if ps := acc.add(dup); len(ps) != 0 {
		t.Fatalf("duplicate flushed %d packets", len(ps))
	}
	if len(acc.q) != 2 || acc.q[0] != p0 || acc.q[1] != p1 {
		t.Fatalf("duplicate changed the queue: %d packets left (want the 2 packets of the unit)", len(acc.q))
	}
}
