package main

import (
	"encoding/json"
	"flag"
	"fmt"
	"os"
	"path/filepath"
	"sort"
	"strconv"
	"strings"
	"sync"
	"time"
)

// ---------------------------------------------------------------------------
// Property check

type KnownFinding struct {
	Status     string `json:"status"` // open | fixed
	Property   string `json:"property"`
	Obligation string `json:"obligation"`
	What       string `json:"what"`
	Except     string `json:"except,omitempty"`
	Commit     string `json:"commit,omitempty"`
	Witness    string `json:"witness,omitempty"`
}

type ExpectedFile map[string][]string

// loadKnownOpen reads the open findings: those of prop get a short solver budget and a KNOWN-FINDING line,
// and no open finding's clause is ever assumed at a call site.
func loadKnownOpen(prop string) {
	var kfs0 []KnownFinding
	loadJSON(filepath.Join(verifDir, "known_findings.json"), &kfs0)
	for _, k := range kfs0 {
		if k.Status == "open" {
			knownOpenAny[k.Obligation] = true
			if k.Property == prop {
				knownOpen[k.Obligation] = true
			}
		}
	}
}

func loadJSON(path string, v interface{}) error {
	b, err := os.ReadFile(path)
	if err != nil {
		return err
	}
	return json.Unmarshal(b, v)
}

// stableKinds are obligation kinds whose names do not depend on source positions.
// baseObl strips the return-site ordinal from an obligation name.
func baseObl(n string) string {
	if i := strings.LastIndex(n, "@ret"); i > 0 {
		return n[:i]
	}
	return n
}

func stableName(o *Oblig) bool {
	if strings.Contains(o.Name, ".go:") {
		return false // carries a source position (inlined call site)
	}
	switch o.Kind {
	case "post", "inv.init", "dec", "assert", "lemma", "pre@call", "scan":
		return true
	case "inv.step":
		return !strings.Contains(o.Label, "autoframe")
	}
	return false
}

func propsOfClause(cl *Clause) []string { return cl.Tags }

// functionsFor lists the functions (non-extern) that carry a clause tagged with prop.
func (e *Engine) functionsFor(prop string) []string {
	var out []string
	for _, name := range e.specs.FuncOrder {
		ct := e.specs.Funcs[name]
		if ct.Extern {
			continue
		}
		tagged := false
		chk := func(cls []*Clause) {
			for _, c := range cls {
				if hasTag(c.Tags, prop) {
					tagged = true
				}
			}
		}
		chk(ct.Requires)
		chk(ct.Ensures)
		chk(ct.AtCall)
		for _, l := range ct.Loops {
			chk(l)
		}
		if ct.Opts["sweep:"+prop] {
			tagged = true
		}
		if tagged {
			out = append(out, name)
		}
	}
	return out
}

type checkOutcome struct {
	funcs      []*FuncResult
	obls       []*Oblig
	violations []violation
	known      []string
	genErrs    []string
	lemmasSkip []string
}

type violation struct {
	obl    string
	reason string
	replay string
	noIn   bool
}

func cmdCheck(args []string) int {
	fs := flag.NewFlagSet("check", flag.ExitOnError)
	prop := fs.String("p", "", "property id")
	tier := fs.String("tier", "", "quick|thorough")
	writeExpected := fs.Bool("write-expected", false, "record the obligation names generated on this tree")
	fs.Parse(args)
	if *prop == "" {
		fmt.Fprintln(os.Stderr, "check: -p required")
		return 2
	}
	if *tier == "" {
		*tier = os.Getenv("VERIF_TIER")
	}
	if *tier == "" {
		*tier = "quick"
	}
	seed := 0
	if s := os.Getenv("VERIF_SEED"); s != "" {
		seed, _ = strconv.Atoi(s)
	}
	t0 := time.Now()
	e, err := setup()
	if err != nil {
		// the tree does not load: nothing can be decided
		fmt.Printf("govc: cannot load the tree: %v\n", err)
		rp := writeReplay(*prop, "load#generator#tree", map[string]interface{}{"obligation": "load#generator#tree", "error": err.Error()})
		fmt.Printf("VIOLATION property=%s replay=%s no-failing-input-found\n", *prop, rp)
		writeEvidence(*prop, *tier, seed, nil, nil, []violation{{obl: "load", reason: err.Error()}}, nil, time.Since(t0).Seconds(), nil)
		return 1
	}
	budget := 90
	useCache = true
	thoroughTier = *tier == "thorough"
	if *tier == "thorough" {
		budget = 600
		useCache = false
	}
	if os.Getenv("GOVC_NO_CACHE") != "" {
		useCache = false
	}
	loadCache()
	loadKnownOpen(*prop)
	out := e.runProperty(*prop, *tier, budget)
	// expected obligations (vacuity / disappearance guard)
	expPath := filepath.Join(verifDir, "expected_obligations.json")
	exp := ExpectedFile{}
	loadJSON(expPath, &exp)
	have := map[string]bool{}
	var stable []string
	seenStable := map[string]bool{}
	for _, o := range out.obls {
		// per-return-site obligations are tracked by their clause, not by the site ordinal
		base := o.Name
		if i := strings.LastIndex(base, "@ret"); i > 0 {
			base = base[:i]
		}
		have[base] = true
		have[o.Name] = true
		if stableName(o) && !seenStable[base] {
			seenStable[base] = true
			stable = append(stable, base)
		}
	}
	sort.Strings(stable)
	if *writeExpected {
		exp[*prop] = stable
		b, _ := json.MarshalIndent(exp, "", " ")
		os.WriteFile(expPath, b, 0o644)
		fmt.Printf("recorded %d expected obligations for %s\n", len(stable), *prop)
	} else {
		for _, n := range exp[*prop] {
			if !have[n] {
				skipped := false
				for _, l := range out.lemmasSkip {
					if strings.HasPrefix(n, "lemma:"+l+"#") {
						skipped = true
					}
				}
				if skipped {
					continue
				}
				out.violations = append(out.violations, violation{obl: n, reason: "expected obligation was not generated on this tree (function, loop or call site it is anchored to is gone, or the generator could not handle the changed code)", noIn: true})
			}
		}
	}
	if len(out.obls) == 0 {
		out.violations = append(out.violations, violation{obl: *prop + "#vacuity", reason: "no obligations generated", noIn: true})
	}
	// known findings
	var kfs []KnownFinding
	loadJSON(filepath.Join(verifDir, "known_findings.json"), &kfs)
	open := map[string]*KnownFinding{}
	for i := range kfs {
		if kfs[i].Status == "open" && kfs[i].Property == *prop {
			open[kfs[i].Obligation] = &kfs[i]
		}
	}
	code := 0
	var reported []violation
	for _, v := range out.violations {
		if kf, ok := open[baseObl(v.obl)]; ok {
			fmt.Printf("KNOWN-FINDING: property=%s %s %s\n", *prop, v.obl, kf.What)
			out.known = append(out.known, v.obl)
			continue
		}
		if v.replay == "" {
			v.replay = writeReplay(*prop, v.obl, map[string]interface{}{"obligation": v.obl, "reason": v.reason, "outcome": "no-failing-input-found"})
			v.noIn = true
		}
		suffix := ""
		if v.noIn {
			suffix = " no-failing-input-found"
		}
		fmt.Printf("VIOLATION property=%s replay=%s%s\n", *prop, v.replay, suffix)
		fmt.Printf("  obligation: %s\n  reason: %s\n", v.obl, v.reason)
		reported = append(reported, v)
		code = 1
	}
	wall := time.Since(t0).Seconds()
	if os.Getenv("GOVC_UPDATE_CACHE") != "" {
		saveCache()
	}
	writeEvidence(*prop, *tier, seed, e, out, reported, out.known, wall, map[string]interface{}{"proof_cache_hits": cacheHits, "proof_cache_note": "quick tier: a query whose complete SMT script (sha256) was already answered as expected is not re-solved; thorough tier re-proves everything"})
	nd := 0
	for _, o := range out.obls {
		if o.Res.Status == o.Expect {
			nd++
		}
	}
	fmt.Printf("%s %s: %d functions, %d obligations, %d discharged, %d violations, %d known findings, %.1fs\n", *prop, *tier, len(out.funcs), len(out.obls), nd, len(reported), len(out.known), wall)
	return code
}

func (e *Engine) runProperty(prop, tier string, budget int) *checkOutcome {
	out := &checkOutcome{}
	safety := prop == "C03"
	work := e.functionsFor(prop)
	tagged := map[string]bool{}
	for _, n := range work {
		tagged[n] = true
	}
	seen := map[string]bool{}
	for len(work) > 0 {
		name := work[0]
		work = work[1:]
		if seen[name] {
			continue
		}
		seen[name] = true
		res := e.verifyFunc(name, prop, safety)
		out.funcs = append(out.funcs, res)
		if res.Err != nil {
			out.genErrs = append(out.genErrs, name+": "+res.Err.Error())
			out.violations = append(out.violations, violation{obl: name + "#generator#unsupported", reason: "the generator cannot derive obligations for this function on this tree: " + res.Err.Error(), noIn: true})
			continue
		}
		out.obls = append(out.obls, res.Obls...)
		for _, u := range res.Used {
			// callees join the run when they carry clauses of this property; clauses without
			// a tag (iterator bookkeeping) are discharged by the runs of the properties that
			// tag the function and by the C03 sweep, which activates every clause
			if !seen[u] && tagged[u] {
				work = append(work, u)
			}
		}
	}
	// lemmas of the property
	for _, ln := range e.specs.LemmaOrd {
		lm := e.specs.Lemmas[ln]
		if !hasTag(lm.Tags, prop) {
			continue
		}
		if lm.Slow && tier != "thorough" {
			out.lemmasSkip = append(out.lemmasSkip, ln)
			continue
		}
		res := e.verifyLemma(ln)
		out.funcs = append(out.funcs, res)
		if res.Err != nil {
			out.violations = append(out.violations, violation{obl: "lemma:" + ln + "#generator", reason: res.Err.Error(), noIn: true})
			continue
		}
		out.obls = append(out.obls, res.Obls...)
	}
	// syntactic scans that several properties lean on
	out.obls = append(out.obls, e.scanObligations(prop)...)
	solveAll(out.obls, budget)
	type pending struct {
		v violation
		o *Oblig
	}
	var pend []*pending
	for _, o := range out.obls {
		if o.Res.Status == o.Expect {
			continue
		}
		if o.Expect == "sat" {
			if o.Res.Status == "unsat" {
				out.violations = append(out.violations, violation{obl: o.Name, reason: "vacuity: the assumptions of " + o.Func + " are contradictory", noIn: true})
			} else {
				// inconclusive cover check: not a violation
				o.Res.Status = "sat" // counted as not contradicting
				o.Res.Solver += " (inconclusive)"
			}
			continue
		}
		v := violation{obl: o.Name, reason: fmt.Sprintf("obligation not discharged (%s by %s): %s", o.Res.Status, o.Res.Solver, o.Text)}
		pend = append(pend, &pending{v: v, o: o})
	}
	// replays run in parallel, at most 8 at a time, and only for the first 12 failures
	var wg sync.WaitGroup
	sem := make(chan struct{}, 8)
	for i, p := range pend {
		if i >= 12 || knownOpen[baseObl(p.o.Name)] {
			p.v.replay, p.v.noIn = "", true
			continue
		}
		wg.Add(1)
		sem <- struct{}{}
		go func(p *pending) {
			defer wg.Done()
			defer func() { <-sem }()
			p.v.replay, p.v.noIn = e.tryReplay(prop, p.o)
		}(p)
	}
	wg.Wait()
	for _, p := range pend {
		out.violations = append(out.violations, p.v)
	}
	return out
}

func writeReplay(prop, obl string, content map[string]interface{}) string {
	dir := filepath.Join(verifDir, "replays", prop)
	if d := os.Getenv("GOVC_EVIDENCE_DIR"); d != "" {
		dir = filepath.Join(d, "replays", prop)
	}
	os.MkdirAll(dir, 0o755)
	path := filepath.Join(dir, sanitize(obl)+".json")
	b, _ := json.MarshalIndent(content, "", " ")
	os.WriteFile(path, b, 0o644)
	return path
}

func writeEvidence(prop, tier string, seed int, e *Engine, out *checkOutcome, viol []violation, known []string, wall float64, extra map[string]interface{}) {
	cov := map[string]interface{}{}
	nObl, nDis := 0, 0
	var perObl []map[string]interface{}
	var samples []interface{}
	solverTotal := 0.0
	funcs := []string{}
	assumed := map[string]bool{}
	inlined := map[string]bool{}
	var genErrs []string
	var knownObl []map[string]interface{}
	bySolver := map[string]int{}
	if out != nil {
		for _, f := range out.funcs {
			funcs = append(funcs, f.Name)
			for _, a := range f.Assumed {
				assumed[a] = true
			}
			for _, a := range f.Inlined {
				inlined[a] = true
			}
		}
		genErrs = out.genErrs
		knownSet := map[string]bool{}
		for _, k := range known {
			knownSet[k] = true
		}
		for _, o := range out.obls {
			ok := o.Res.Status == o.Expect
			if knownSet[o.Name] && !ok {
				// an open known finding: reported on its own line, not counted as an obligation of the proof
				knownObl = append(knownObl, map[string]interface{}{"name": o.Name, "clause": o.Text, "status": o.Res.Status, "solver": o.Res.Solver})
				continue
			}
			nObl++
			if ok {
				nDis++
			}
			solverTotal += o.Res.Seconds
			bySolver[o.Res.Solver]++
			perObl = append(perObl, map[string]interface{}{"name": o.Name, "kind": o.Kind, "status": o.Res.Status, "solver": o.Res.Solver, "seconds": round3(o.Res.Seconds), "smt_sha": o.Res.SHA})
			if len(samples) < 6 && (o.Kind == "post" || o.Kind == "inv.step" || o.Kind == "lemma" || o.Kind == "assert") {
				samples = append(samples, map[string]interface{}{"obligation": o.Name, "clause": o.Text, "tags": o.Tags, "result": o.Res.Status, "solver": o.Res.Solver})
			}
		}
	}
	if len(samples) == 0 {
		samples = append(samples, map[string]interface{}{"note": "no obligation samples"})
	}
	var assumedL, inlinedL []string
	for a := range assumed {
		assumedL = append(assumedL, a)
	}
	for a := range inlined {
		inlinedL = append(inlinedL, a)
	}
	sort.Strings(assumedL)
	sort.Strings(inlinedL)
	cov["obligations"] = nObl
	cov["discharged"] = nDis
	cov["checker_cmd"] = fmt.Sprintf("/verif/bin/govc check -p %s -tier %s", prop, tier)
	cov["trusted_base"] = []string{
		"govc VC generator (SSA -> SMT translation, contract parser, memory model): unverified",
		"go/ssa (x/tools v0.29.0) as the semantics of the source; Go type safety (no unsafe/cgo/asm in astits)",
		"SMT solvers: an obligation is discharged when one of z3 4.8.12 / z3-new 5.1.0 / cvc5 1.0.3 answers unsat",
	}
	cov["samples"] = samples
	cov["functions_under_contract"] = funcs
	cov["per_obligation"] = perObl
	cov["solver_seconds_total"] = round3(solverTotal)
	cov["discharged_by_solver"] = bySolver
	cov["assumed_callee_contracts"] = assumedL
	cov["inlined_callees_verified_from_source"] = inlinedL
	cov["generator_errors"] = genErrs
	cov["known_findings_reported"] = known
	if skippedThorough {
		cov["clauses_left_to_thorough_tier"] = "clauses tagged THOROUGH in the contracts (minutes of solver time each) are not generated in the quick tier"
	}
	cov["known_finding_obligations"] = knownObl
	if len(knownObl) > 0 {
		cov["explanation"] = fmt.Sprintf("%d obligation(s) fail on this tree exactly as recorded in /verif/known_findings.json (open findings, each with a witness test); they are listed under known_finding_obligations and are not part of the obligations/discharged counts, which cover everything else", len(knownObl))
	}
	if out != nil {
		cov["lemmas_assumed_in_this_tier"] = out.lemmasSkip
	}
	var vl []string
	for _, v := range viol {
		vl = append(vl, v.obl)
	}
	cov["violated_obligations"] = vl
	for k, v := range extra {
		cov[k] = v
	}
	assumptions := []string{
		"integers are fixed-width bit-vectors with Go wrap-around semantics (no mathematical-integer abstraction)",
		"machine bounds: slice lengths/offsets < 2^48; fewer than 2^31 allocations; allocation never fails",
		"sequential use of one instance; user callbacks do not panic and do not touch library state",
		"package-level variables are not assigned outside init (checked by the global-store scan where listed)",
	}
	for _, a := range assumedL {
		assumptions = append(assumptions, "assumed contract / model: "+a)
	}
	ev := map[string]interface{}{
		"property_id": prop,
		"tier":        tier,
		"seed":        seed,
		"level":       "proof",
		"coverage":    cov,
		"assumptions": assumptions,
		"wall_s":      round3(wall),
		"violations":  len(viol),
	}
	evDir := filepath.Join(verifDir, "evidence")
	if d := os.Getenv("GOVC_EVIDENCE_DIR"); d != "" {
		evDir = d // scratch runs on seeded changes must not overwrite the evidence of the unchanged tree
	}
	os.MkdirAll(evDir, 0o755)
	b, _ := json.MarshalIndent(ev, "", " ")
	os.WriteFile(filepath.Join(evDir, prop+".json"), b, 0o644)
}

func round3(f float64) float64 { return float64(int(f*1000+0.5)) / 1000 }

// scanObligations: syntactic whole-package checks, reported as obligations of kind "scan".
func (e *Engine) scanObligations(prop string) []*Oblig {
	var out []*Oblig
	switch prop {
	case "C10", "C16", "C09":
		bad := e.globalStores()
		o := &Oblig{Name: "package#scan#no_store_to_package_vars", Kind: "scan", Func: "package", Text: "no function outside init stores to a package-level variable (so tableCRC32, bytesPool and the error sentinels are constants)", Expect: "unsat", Goal: "true"}
		if len(bad) > 0 {
			o.Goal = "false"
			o.Text += ": " + strings.Join(bad, "; ")
			o.Guard = "true"
			o.Script = "(assert true)\n(check-sat)\n"
			o.Expect = "unsat"
			o.Res = SolveResult{Status: "sat", Solver: "ssa-scan"}
		} else {
			o.Res = SolveResult{Status: "unsat", Solver: "ssa-scan"}
		}
		out = append(out, o)
	}
	return out
}
