package main

func cmdCheck(args []string) int { return 2 }
