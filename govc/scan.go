package main

import (
	"fmt"

	"golang.org/x/tools/go/ssa"
)

// globalStores lists stores to package-level variables of astits outside init.
func (e *Engine) globalStores() []string {
	var bad []string
	for name, fn := range e.byName {
		if fn.Pkg != e.pkg || fn.Name() == "init" {
			continue
		}
		_ = name
		for _, b := range fn.Blocks {
			for _, in := range b.Instrs {
				st, ok := in.(*ssa.Store)
				if !ok {
					continue
				}
				if g := rootGlobal(st.Addr); g != nil && g.Pkg == e.pkg {
					bad = append(bad, fmt.Sprintf("%s stores to %s", e.fnName(fn), g.Name()))
				}
			}
		}
	}
	return bad
}

func rootGlobal(v ssa.Value) *ssa.Global {
	for i := 0; i < 8; i++ {
		switch x := v.(type) {
		case *ssa.Global:
			return x
		case *ssa.FieldAddr:
			v = x.X
		case *ssa.IndexAddr:
			v = x.X
		default:
			return nil
		}
	}
	return nil
}
