package main

import (
	"bytes"
	"context"
	"crypto/sha256"
	"fmt"
	"os"
	"os/exec"
	"path/filepath"
	"sort"
	"strings"
	"sync"
	"sync/atomic"
	"time"
)

// ---------------------------------------------------------------------------
// SMT context: an ordered list of definitions; queries are built by taking the
// cone of influence of a goal.

const (
	sRef  = "Int"
	sBool = "Bool"
	sF64  = "(_ FloatingPoint 11 53)"
	sStr  = "Str"
)

func sBV(w int) string { return fmt.Sprintf("(_ BitVec %d)", w) }
func sArr(i, e string) string {
	return "(Array " + i + " " + e + ")"
}

type defn struct {
	name string
	line string // full SMT command
	weak string // sound weakening used in mode >= 1 (quantified assumption dropped)
}

type Ctx struct {
	defs      []defn
	idx       map[string]int
	n         int
	prelude   []string          // always included (sorts, spec functions, axioms)
	opaqueAlt map[string]string // prelude line -> weaker replacement (declaration only)
	allocSyms map[string]bool   // reference terms produced by distinct allocations (pairwise different)
	strs      map[string]string
	strList   []string
}

func newCtx() *Ctx {
	return &Ctx{idx: map[string]int{}, strs: map[string]string{}, opaqueAlt: map[string]string{}, allocSyms: map[string]bool{}}
}

func (c *Ctx) name(prefix string) string {
	c.n++
	return fmt.Sprintf("%s!%d", sanitize(prefix), c.n)
}

func sanitize(s string) string {
	var b strings.Builder
	for _, r := range s {
		switch {
		case r >= 'a' && r <= 'z', r >= 'A' && r <= 'Z', r >= '0' && r <= '9', r == '_', r == '.', r == '$':
			b.WriteRune(r)
		default:
			b.WriteByte('_')
		}
	}
	return b.String()
}

// fresh declares an unconstrained constant.
func (c *Ctx) fresh(prefix, sort string) string {
	n := c.name(prefix)
	c.idx[n] = len(c.defs)
	c.defs = append(c.defs, defn{name: n, line: fmt.Sprintf("(declare-const %s %s)", n, sort)})
	return n
}

// define introduces a named abbreviation.
func (c *Ctx) define(prefix, sort, term string) string {
	// do not re-wrap plain symbols or literals
	if isAtom(term) {
		return term
	}
	n := c.name(prefix)
	c.idx[n] = len(c.defs)
	c.defs = append(c.defs, defn{name: n, line: fmt.Sprintf("(define-fun %s () %s %s)", n, sort, term)})
	return n
}

// defineConst names a term by a declared constant plus a defining equation (unlike
// define-fun, the solver does not inline it, so it can appear in quantifier triggers).
func (c *Ctx) defineConst(prefix, sort, term string) string {
	if isAtom(term) {
		if i, ok := c.idx[term]; ok && strings.HasPrefix(c.defs[i].line, "(declare-const") {
			return term
		}
	}
	n := c.name(prefix)
	c.idx[n] = len(c.defs)
	c.defs = append(c.defs, defn{name: n, line: fmt.Sprintf("(declare-const %s %s)\n(assert (= %s %s))", n, sort, n, term)})
	return n
}

// defineGuard is define for path guards: when the added conjunct is quantified, a weaker
// alternative without it is recorded (dropping an assumption is always sound).
func (c *Ctx) defineGuard(prev, conj string) string {
	n := c.name("g")
	c.idx[n] = len(c.defs)
	d := defn{name: n, line: fmt.Sprintf("(define-fun %s () Bool %s)", n, and(prev, conj))}
	if strings.Contains(conj, "(forall") {
		d.weak = fmt.Sprintf("(define-fun %s () Bool %s)", n, and(prev, "true"))
		if prev == "true" || prev == "" {
			d.weak = fmt.Sprintf("(define-fun %s () Bool true)", n)
		}
	}
	c.defs = append(c.defs, d)
	return n
}

func (c *Ctx) defText(n string) string {
	if i, ok := c.idx[n]; ok {
		l := c.defs[i].line
		if len(l) > 300 {
			l = l[:300]
		}
		return l
	}
	return "?"
}

// selectOf simplifies (select h ref) when h is (a merge of) stores at the very same term.
func (c *Ctx) selectOf(h, ref string) string {
	if v := c.resolveSelect(h, ref, 0); v != "" {
		return v
	}
	return "(select " + h + " " + ref + ")"
}

func (c *Ctx) resolveSelect(h, ref string, depth int) string {
	if depth > 12 {
		return ""
	}
	body := h
	if isAtom(h) {
		i, ok := c.idx[h]
		if !ok {
			return ""
		}
		line := c.defs[i].line
		pre := "(define-fun " + h + " () "
		if !strings.HasPrefix(line, pre) {
			return ""
		}
		parts := splitSexprArgs(line)
		if len(parts) != 5 {
			return ""
		}
		body = parts[4]
	}
	if isAtom(body) {
		if body == h {
			return ""
		}
		return c.resolveSelect(body, ref, depth+1)
	}
	parts := splitSexprArgs(body)
	switch {
	case len(parts) == 4 && parts[0] == "store":
		if parts[2] == ref {
			return parts[3]
		}
		if c.allocSyms[parts[2]] && c.allocSyms[ref] {
			// two different allocations never alias: look through the store
			return c.resolveSelect(parts[1], ref, depth+1)
		}
		return ""
	case len(parts) == 4 && parts[0] == "ite":
		x := c.resolveSelect(parts[2], ref, depth+1)
		if x == "" {
			return ""
		}
		y := c.resolveSelect(parts[3], ref, depth+1)
		if x == y {
			return x
		}
		if y == "" {
			return ""
		}
		return "(ite " + parts[1] + " " + x + " " + y + ")"
	}
	return ""
}

// olderThan reports whether every declared (unconstrained) symbol the term depends on,
// looking through definitions, was introduced before position mark.
func (c *Ctx) olderThan(term string, mark int) bool {
	seen := map[string]bool{}
	var visit func(t string) bool
	visit = func(t string) bool {
		for _, tk := range tokens(t) {
			i, ok := c.idx[tk]
			if !ok || seen[tk] {
				continue
			}
			seen[tk] = true
			line := c.defs[i].line
			if strings.HasPrefix(line, "(declare-const") {
				if i >= mark {
					return false
				}
				continue
			}
			if i >= mark {
				// a definition made after the mark: look at what it is defined from
				if !visit(line[strings.Index(line, tk)+len(tk):]) {
					return false
				}
			}
		}
		return true
	}
	return visit(term)
}

// chainOf views an array term as a chain of stores over a root: it returns the root and
// the references stored to, innermost first.
func (c *Ctx) chainOf(t string) (root string, refs []string) {
	for depth := 0; depth < 64; depth++ {
		body := t
		if isAtom(t) {
			i, ok := c.idx[t]
			if !ok {
				return t, refs
			}
			line := c.defs[i].line
			if !strings.HasPrefix(line, "(define-fun "+t+" () ") {
				return t, refs
			}
			parts := splitSexprArgs(line)
			if len(parts) != 5 {
				return t, refs
			}
			body = parts[4]
		}
		if isAtom(body) {
			if body == t {
				return t, refs
			}
			t = body
			continue
		}
		parts := splitSexprArgs(body)
		if len(parts) == 4 && parts[0] == "store" {
			refs = append([]string{parts[2]}, refs...)
			t = parts[1]
			continue
		}
		return t, refs
	}
	return t, refs
}

// splitSexprArgs splits "(f a b c)" into [f a b c] at the top level.
func splitSexprArgs(s string) []string {
	s = strings.TrimSpace(s)
	if len(s) < 2 || s[0] != '(' || s[len(s)-1] != ')' {
		return nil
	}
	s = s[1 : len(s)-1]
	var out []string
	depth := 0
	start := -1
	for i := 0; i < len(s); i++ {
		ch := s[i]
		switch {
		case ch == '(':
			if depth == 0 && start < 0 {
				start = i
			}
			depth++
		case ch == ')':
			depth--
			if depth == 0 {
				out = append(out, s[start:i+1])
				start = -1
			}
		case ch == ' ':
			if depth == 0 && start >= 0 {
				out = append(out, s[start:i])
				start = -1
			}
		default:
			if depth == 0 && start < 0 {
				start = i
			}
		}
	}
	if start >= 0 {
		out = append(out, s[start:])
	}
	return out
}

func isAtom(t string) bool {
	return !strings.ContainsAny(t, " ()")
}

func (c *Ctx) strConst(s string) string {
	if n, ok := c.strs[s]; ok {
		return n
	}
	n := fmt.Sprintf("str!%d", len(c.strs))
	c.strs[s] = n
	c.strList = append(c.strList, n)
	return n
}

func tokens(s string) []string {
	f := func(r rune) bool { return r == ' ' || r == '(' || r == ')' || r == '\n' || r == '\t' }
	return strings.FieldsFunc(s, f)
}

// query builds a complete SMT-LIB script asserting the given formulas, restricted
// to the definitions the formulas (transitively) mention.
func (c *Ctx) query(asserts []string, extra []string) string {
	return c.queryMode(asserts, extra, 0)
}

// queryMode: mode 0 = full; 1 = non-recursive spec functions opaque (sound weakening);
// 2 = additionally drop quantified prelude axioms (used for cover/sat checks);
// 3 = like 2 but with every definition of the run included (model extraction).
func (c *Ctx) queryMode(asserts []string, extra []string, mode int) string {
	need := map[int]bool{}
	if mode == 3 {
		for i := range c.defs {
			need[i] = true
		}
		mode = 2
	}
	var stack []string
	push := func(s string) {
		for _, t := range tokens(s) {
			if i, ok := c.idx[t]; ok && !need[i] {
				need[i] = true
				stack = append(stack, c.defs[i].line)
			}
		}
	}
	for _, a := range asserts {
		push(a)
	}
	for _, a := range extra {
		push(a)
	}
	for len(stack) > 0 {
		s := stack[len(stack)-1]
		stack = stack[:len(stack)-1]
		push(s)
	}
	idxs := make([]int, 0, len(need))
	for i := range need {
		idxs = append(idxs, i)
	}
	sort.Ints(idxs)
	// prelude lines are included only when a symbol they declare/define is needed
	declSym := func(line string) string {
		for _, pre := range []string{"(declare-fun ", "(define-fun "} {
			if strings.HasPrefix(line, pre) {
				rest := line[len(pre):]
				if i := strings.IndexAny(rest, " ("); i > 0 {
					return rest[:i]
				}
			}
		}
		return ""
	}
	preSyms := map[string][]int{} // symbol -> prelude lines that declare or axiomatise it
	declared := map[string]bool{}
	for _, p := range c.prelude {
		if sym := declSym(p); sym != "" {
			declared[sym] = true
		}
	}
	for i, p := range c.prelude {
		if sym := declSym(p); sym != "" {
			preSyms[sym] = append(preSyms[sym], i)
		} else if strings.HasPrefix(p, "(assert") {
			// an axiom belongs to the first declared symbol it mentions
			for _, t := range tokens(p) {
				if declared[t] {
					preSyms[t] = append(preSyms[t], i)
					break
				}
			}
		}
	}
	needPre := map[int]bool{}
	var work []string
	for _, i := range idxs {
		work = append(work, c.defs[i].line)
	}
	work = append(work, asserts...)
	work = append(work, extra...)
	for len(work) > 0 {
		s := work[len(work)-1]
		work = work[:len(work)-1]
		for _, t := range tokens(s) {
			for _, i := range preSyms[t] {
				if !needPre[i] {
					needPre[i] = true
					work = append(work, c.prelude[i])
				}
			}
		}
	}
	var b strings.Builder
	b.WriteString("(set-option :produce-models true)\n(set-logic ALL)\n")
	b.WriteString("(declare-sort Str 0)\n")
	for i, p := range c.prelude {
		if !needPre[i] && !strings.HasPrefix(p, "(declare-sort") {
			continue
		}
		if mode >= 1 {
			if alt, ok := c.opaqueAlt[p]; ok {
				p = alt
			}
		}
		if mode >= 1 && mode != 5 && strings.HasPrefix(p, "(assert (forall") {
			// weak variant of a function obligation: no quantified prelude axioms at all
			// (mode 5, used for lemmas, keeps them: an induction needs the recursive definition)
			continue
		}
		b.WriteString(p)
		b.WriteByte('\n')
	}
	if len(c.strList) > 0 {
		for _, s := range c.strList {
			fmt.Fprintf(&b, "(declare-const %s Str)\n", s)
		}
		if len(c.strList) > 1 {
			fmt.Fprintf(&b, "(assert (distinct %s))\n", strings.Join(c.strList, " "))
		}
	}
	for _, i := range idxs {
		if mode >= 1 && c.defs[i].weak != "" {
			b.WriteString(c.defs[i].weak)
		} else {
			b.WriteString(c.defs[i].line)
		}
		b.WriteByte('\n')
	}
	for _, a := range extra {
		b.WriteString(a)
		b.WriteByte('\n')
	}
	for _, a := range asserts {
		fmt.Fprintf(&b, "(assert %s)\n", a)
	}
	b.WriteString("(check-sat)\n")
	return b.String()
}

// ---------------------------------------------------------------------------
// small term helpers

func and(xs ...string) string {
	var ys []string
	for _, x := range xs {
		if x == "true" || x == "" {
			continue
		}
		if x == "false" {
			return "false"
		}
		ys = append(ys, x)
	}
	switch len(ys) {
	case 0:
		return "true"
	case 1:
		return ys[0]
	}
	return "(and " + strings.Join(ys, " ") + ")"
}

func or(xs ...string) string {
	var ys []string
	for _, x := range xs {
		if x == "false" || x == "" {
			continue
		}
		if x == "true" {
			return "true"
		}
		ys = append(ys, x)
	}
	switch len(ys) {
	case 0:
		return "false"
	case 1:
		return ys[0]
	}
	return "(or " + strings.Join(ys, " ") + ")"
}

func not(x string) string {
	if x == "true" {
		return "false"
	}
	if x == "false" {
		return "true"
	}
	return "(not " + x + ")"
}
func implies(a, b string) string {
	if a == "true" {
		return b
	}
	return "(=> " + a + " " + b + ")"
}
func ite(c, a, b string) string {
	if a == b {
		return a
	}
	if c == "true" {
		return a
	}
	if c == "false" {
		return b
	}
	return "(ite " + c + " " + a + " " + b + ")"
}
func eq(a, b string) string {
	if a == b {
		return "true"
	}
	return "(= " + a + " " + b + ")"
}
func sel(a, i string) string { return "(select " + a + " " + i + ")" }
func sto(a, i, v string) string {
	return "(store " + a + " " + i + " " + v + ")"
}

func bvLit(v uint64, w int) string {
	if w%4 == 0 {
		return fmt.Sprintf("#x%0*x", w/4, v&mask(w))
	}
	return fmt.Sprintf("#b%0*b", w, v&mask(w))
}
func mask(w int) uint64 {
	if w >= 64 {
		return ^uint64(0)
	}
	return (uint64(1) << uint(w)) - 1
}
func refLit(v uint64) string   { return fmt.Sprintf("%d", v) }
func refLt(a, b string) string { return "(< " + a + " " + b + ")" }
func refLe(a, b string) string { return "(<= " + a + " " + b + ")" }

// ---------------------------------------------------------------------------
// Solver runner

type SolveResult struct {
	Status  string // unsat | sat | unknown | timeout | error
	Solver  string
	Seconds float64
	Output  string
	File    string
	SHA     string
}

var (
	workDir     string
	solverCalls int64
	solverMu    sync.Mutex
	solverSecs  float64
)

type solverSpec struct {
	name string
	argv func(file string, secs int) []string
}

var solvers = []solverSpec{
	{"z3-new-5.1.0", func(f string, s int) []string { return []string{"z3-new", fmt.Sprintf("-T:%d", s), f} }},
	{"cvc5-1.0.3", func(f string, s int) []string {
		return []string{"cvc5", "--fp-exp", fmt.Sprintf("--tlimit=%d", s*1000), f}
	}},
	{"z3-4.8.12", func(f string, s int) []string { return []string{"z3", fmt.Sprintf("-T:%d", s), f} }},
}

var procSem = make(chan struct{}, 16)

func runOne(ctx context.Context, sp solverSpec, file string, secs int) SolveResult {
	select {
	case procSem <- struct{}{}:
	case <-ctx.Done():
		return SolveResult{Solver: sp.name, Status: "cancelled"}
	}
	defer func() { <-procSem }()
	if ctx.Err() != nil {
		return SolveResult{Solver: sp.name, Status: "cancelled"}
	}
	argv := sp.argv(file, secs)
	cctx, cancel := context.WithTimeout(ctx, time.Duration(secs+5)*time.Second)
	defer cancel()
	cmd := exec.CommandContext(cctx, argv[0], argv[1:]...)
	var out bytes.Buffer
	cmd.Stdout = &out
	cmd.Stderr = &out
	t0 := time.Now()
	_ = cmd.Run()
	dt := time.Since(t0).Seconds()
	atomic.AddInt64(&solverCalls, 1)
	solverMu.Lock()
	solverSecs += dt
	solverMu.Unlock()
	res := SolveResult{Solver: sp.name, Seconds: dt, Output: out.String()}
	first := ""
	for _, l := range strings.Split(out.String(), "\n") {
		l = strings.TrimSpace(l)
		if l == "unsat" || l == "sat" || l == "unknown" || l == "timeout" {
			first = l
			break
		}
	}
	if strings.Contains(out.String(), "(error") {
		// a rejected script proves nothing, whatever the solver prints afterwards
		first = ""
	}
	switch first {
	case "unsat", "sat", "unknown", "timeout":
		res.Status = first
	default:
		if cctx.Err() != nil {
			res.Status = "timeout"
		} else {
			res.Status = "error"
		}
	}
	return res
}

// solve runs the query: a quick pass on z3-new, then a race of all solvers.
func solve(name, script string, budget int) SolveResult {
	return solve2(name, script, "", budget)
}

func solve2(name, script, alt string, budget int) SolveResult {
	sum := sha256.Sum256([]byte(script))
	sha := fmt.Sprintf("%x", sum[:8])
	file := filepath.Join(workDir, sanitize(name)+"-"+sha+".smt2")
	if err := os.WriteFile(file, []byte(script), 0o644); err != nil {
		return SolveResult{Status: "error", Output: err.Error()}
	}
	quick := 4
	if budget < quick {
		quick = budget
	}
	if alt == "-" {
		// cube of a case split: most are trivial; give z3-new the whole budget first
		quick = budget
		alt = ""
	}
	r := runOne(context.Background(), solvers[0], file, quick)
	r.File, r.SHA = file, sha
	if r.Status == "unsat" || r.Status == "sat" {
		return r
	}
	// race
	ctx, cancel := context.WithCancel(context.Background())
	defer cancel()
	files := []string{file}
	if alt != "" && alt != script {
		af := filepath.Join(workDir, sanitize(name)+"-"+sha+".opaque.smt2")
		if err := os.WriteFile(af, []byte(alt), 0o644); err == nil {
			files = append(files, af)
		}
	}
	ch := make(chan SolveResult, len(solvers)*len(files))
	for fi, f := range files {
		for _, sp := range solvers {
			sp, f, fi := sp, f, fi
			go func() {
				x := runOne(ctx, sp, f, budget)
				x.File = f
				if fi == 1 {
					x.Solver += "+opaque-specs"
					if x.Status == "sat" {
						x.Status = "unknown" // a model of the weakened query proves nothing
					}
				}
				ch <- x
			}()
		}
	}
	var last SolveResult
	var outs []string
	for i := 0; i < len(solvers)*len(files); i++ {
		x := <-ch
		x.SHA = sha
		if x.Status == "unsat" || x.Status == "sat" {
			return x
		}
		outs = append(outs, x.Solver+": "+x.Status+" "+firstLines(x.Output, 3))
		last = x
	}
	last.Status = "unknown"
	last.Solver = "all"
	last.Output = strings.Join(outs, "\n")
	return last
}

func firstLines(s string, n int) string {
	ls := strings.Split(strings.TrimSpace(s), "\n")
	if len(ls) > n {
		ls = ls[:n]
	}
	return strings.Join(ls, " | ")
}
