package main

import (
	"fmt"
	"strconv"
	"strings"
)

// ---------------------------------------------------------------------------
// Contract expression language: Go-like expressions plus ==>, <==>, old(e),
// forall(k, lo, hi, body), exists(k, lo, hi, body), ite(c,a,b), conversions
// u8(..) u16(..) u32(..) u64(..) i64(..) int(..), spec function calls.

type Expr interface{}

type (
	EIdent struct{ Name string }
	EInt   struct {
		V   uint64
		Neg bool
	}
	EFloat struct{ Text string }
	EBool  struct{ V bool }
	ENil   struct{}
	EUn    struct {
		Op string
		X  Expr
	}
	EBin struct {
		Op   string
		X, Y Expr
	}
	ECall struct {
		Fn   string
		Args []Expr
	}
	ESel struct {
		X    Expr
		Name string
	}
	EIndex struct{ X, I Expr }
	ESlice struct{ X, Lo, Hi Expr }
	EStr   struct{ S string }
)

type tok struct {
	k string // id int float str op eof
	s string
}

type lexer struct {
	src  string
	pos  int
	toks []tok
}

var ops3 = []string{"==>", "<==", "&^=", "<<=", ">>="}
var ops2 = []string{"&&", "||", "==", "!=", "<=", ">=", "<<", ">>", "&^", "::"}

func lex(src string) ([]tok, error) {
	var out []tok
	i := 0
	for i < len(src) {
		c := src[i]
		switch {
		case c == ' ' || c == '\t' || c == '\n':
			i++
		case c == '"':
			j := i + 1
			for j < len(src) && src[j] != '"' {
				j++
			}
			out = append(out, tok{"str", src[i+1 : j]})
			i = j + 1
		case isLetter(c):
			j := i
			for j < len(src) && (isLetter(src[j]) || isDigit(src[j])) {
				j++
			}
			out = append(out, tok{"id", src[i:j]})
			i = j
		case isDigit(c):
			j := i
			isF := false
			if c == '0' && j+1 < len(src) && (src[j+1] == 'x' || src[j+1] == 'X' || src[j+1] == 'b') {
				j += 2
				for j < len(src) && (isHex(src[j]) || src[j] == '_') {
					j++
				}
			} else {
				for j < len(src) && (isDigit(src[j]) || src[j] == '_' || src[j] == '.') {
					if src[j] == '.' {
						isF = true
					}
					j++
				}
			}
			if isF {
				out = append(out, tok{"float", src[i:j]})
			} else {
				out = append(out, tok{"int", strings.ReplaceAll(src[i:j], "_", "")})
			}
			i = j
		default:
			if strings.HasPrefix(src[i:], "<==>") {
				out = append(out, tok{"op", "<==>"})
				i += 4
				continue
			}
			matched := false
			for _, o := range ops3 {
				if strings.HasPrefix(src[i:], o) {
					out = append(out, tok{"op", o})
					i += 3
					matched = true
					break
				}
			}
			if matched {
				continue
			}
			for _, o := range ops2 {
				if strings.HasPrefix(src[i:], o) {
					out = append(out, tok{"op", o})
					i += 2
					matched = true
					break
				}
			}
			if matched {
				continue
			}
			if strings.ContainsRune("+-*/%&|^<>!()[]{},.:", rune(c)) {
				out = append(out, tok{"op", string(c)})
				i++
				continue
			}
			return nil, fmt.Errorf("unexpected character %q in %q", c, src)
		}
	}
	out = append(out, tok{"eof", ""})
	return out, nil
}

func isLetter(c byte) bool {
	return c >= 'a' && c <= 'z' || c >= 'A' && c <= 'Z' || c == '_' || c == '$'
}
func isDigit(c byte) bool { return c >= '0' && c <= '9' }
func isHex(c byte) bool {
	return isDigit(c) || c >= 'a' && c <= 'f' || c >= 'A' && c <= 'F'
}

type parser struct {
	toks []tok
	p    int
}

func parseExpr(src string) (e Expr, err error) {
	toks, err := lex(src)
	if err != nil {
		return nil, err
	}
	ps := &parser{toks: toks}
	defer func() {
		if r := recover(); r != nil {
			if pe, ok := r.(parseErr); ok {
				err = fmt.Errorf("%s in %q", string(pe), src)
				return
			}
			panic(r)
		}
	}()
	e = ps.expr(0)
	if ps.peek().k != "eof" {
		return nil, fmt.Errorf("trailing input %q in %q", ps.peek().s, src)
	}
	return e, nil
}

type parseErr string

func (p *parser) peek() tok { return p.toks[p.p] }
func (p *parser) next() tok { t := p.toks[p.p]; p.p++; return t }
func (p *parser) expect(s string) {
	t := p.next()
	if t.s != s {
		panic(parseErr(fmt.Sprintf("expected %q got %q", s, t.s)))
	}
}

// precedence (low to high): <==> 1, ==> 2 (right assoc), || 3, && 4, comparison 5,
// + - | ^ 6, * / % << >> & &^ 7
func prec(op string) int {
	switch op {
	case "<==>":
		return 1
	case "==>":
		return 2
	case "||":
		return 3
	case "&&":
		return 4
	case "==", "!=", "<", "<=", ">", ">=":
		return 5
	case "+", "-", "|", "^":
		return 6
	case "*", "/", "%", "<<", ">>", "&", "&^":
		return 7
	}
	return 0
}

func (p *parser) expr(min int) Expr {
	x := p.unary()
	for {
		t := p.peek()
		if t.k != "op" {
			return x
		}
		pr := prec(t.s)
		if pr == 0 || pr < min {
			return x
		}
		p.next()
		var y Expr
		if t.s == "==>" {
			y = p.expr(pr) // right assoc
		} else {
			y = p.expr(pr + 1)
		}
		x = &EBin{t.s, x, y}
	}
}

func (p *parser) unary() Expr {
	t := p.peek()
	if t.k == "op" && (t.s == "!" || t.s == "-" || t.s == "^") {
		p.next()
		x := p.unary()
		if t.s == "-" {
			if i, ok := x.(*EInt); ok {
				return &EInt{i.V, !i.Neg}
			}
		}
		return &EUn{t.s, x}
	}
	return p.postfix(p.primary())
}

func (p *parser) primary() Expr {
	t := p.next()
	switch t.k {
	case "int":
		var v uint64
		var err error
		if strings.HasPrefix(t.s, "0b") {
			v, err = strconv.ParseUint(t.s[2:], 2, 64)
		} else {
			v, err = strconv.ParseUint(t.s, 0, 64)
		}
		if err != nil {
			panic(parseErr("bad int " + t.s))
		}
		return &EInt{V: v}
	case "float":
		return &EFloat{t.s}
	case "str":
		return &EStr{t.s}
	case "id":
		switch t.s {
		case "true":
			return &EBool{true}
		case "false":
			return &EBool{false}
		case "nil":
			return &ENil{}
		}
		return &EIdent{t.s}
	case "op":
		if t.s == "(" {
			x := p.expr(0)
			p.expect(")")
			return x
		}
	}
	panic(parseErr(fmt.Sprintf("unexpected token %q", t.s)))
}

func (p *parser) postfix(x Expr) Expr {
	for {
		t := p.peek()
		if t.k != "op" {
			return x
		}
		switch t.s {
		case ".":
			p.next()
			n := p.next()
			if n.k != "id" {
				panic(parseErr("expected field name"))
			}
			x = &ESel{x, n.s}
		case "(":
			id, ok := x.(*EIdent)
			if !ok {
				// method-style spec call not supported
				panic(parseErr("call of non-identifier"))
			}
			p.next()
			var args []Expr
			for p.peek().s != ")" {
				args = append(args, p.expr(0))
				if p.peek().s == "," {
					p.next()
				}
			}
			p.expect(")")
			x = &ECall{id.Name, args}
		case "[":
			p.next()
			var lo, hi Expr
			if p.peek().s != ":" {
				lo = p.expr(0)
			}
			if p.peek().s == ":" {
				p.next()
				if p.peek().s != "]" {
					hi = p.expr(0)
				}
				p.expect("]")
				x = &ESlice{x, lo, hi}
			} else {
				p.expect("]")
				x = &EIndex{x, lo}
			}
		default:
			return x
		}
	}
}

func exprString(e Expr) string {
	switch e := e.(type) {
	case *EIdent:
		return e.Name
	case *EInt:
		if e.Neg {
			return fmt.Sprintf("-%d", e.V)
		}
		return fmt.Sprintf("%d", e.V)
	case *EFloat:
		return e.Text
	case *EBool:
		return fmt.Sprint(e.V)
	case *ENil:
		return "nil"
	case *EStr:
		return strconv.Quote(e.S)
	case *EUn:
		return e.Op + exprString(e.X)
	case *EBin:
		return "(" + exprString(e.X) + " " + e.Op + " " + exprString(e.Y) + ")"
	case *ECall:
		var as []string
		for _, a := range e.Args {
			as = append(as, exprString(a))
		}
		return e.Fn + "(" + strings.Join(as, ", ") + ")"
	case *ESel:
		return exprString(e.X) + "." + e.Name
	case *EIndex:
		return exprString(e.X) + "[" + exprString(e.I) + "]"
	case *ESlice:
		lo, hi := "", ""
		if e.Lo != nil {
			lo = exprString(e.Lo)
		}
		if e.Hi != nil {
			hi = exprString(e.Hi)
		}
		return exprString(e.X) + "[" + lo + ":" + hi + "]"
	}
	return "?"
}
