package main

import (
	"regexp"
	"fmt"
	"go/types"
	"sort"
	"strings"

	"golang.org/x/tools/go/ssa"
)

// ---------------------------------------------------------------------------
// Verifying one function against its contract

type FuncResult struct {
	Name      string
	Obls      []*Oblig
	Err       error    // generator could not handle the function
	Used      []string // contracts of callees used (non-extern)
	Assumed   []string // extern / modelled callees
	Inlined   []string
	Unsup     []string
	NumInstrs int
}

func (e *Engine) verifyFunc(name, prop string, safety bool) *FuncResult {
	res := &FuncResult{Name: name}
	fn := e.byName[name]
	if fn == nil {
		res.Err = fmt.Errorf("function %s not found in the current tree", name)
		return res
	}
	for _, b := range fn.Blocks {
		res.NumInstrs += len(b.Instrs)
	}
	r := e.newRun(prop, safety)
	ct := e.specs.Funcs[name]
	fr := r.newFrame(fn, 0)
	fr.contract = ct
	r.top = fr
	if ct != nil {
		for _, l := range ct.Lets {
			fr.lets[l.Name] = l.E
		}
	}
	st := &State{guard: "true", heap: map[string]string{}}
	st.alloc = r.ctx.fresh("alloc0", sRef)
	r.assume(st, refLt(refLit(0x10000*refStride), st.alloc))
	// parameters
	for _, p := range fn.Params {
		v, err := r.freshValue("p."+p.Name(), p.Type())
		if err != nil {
			res.Err = err
			return res
		}
		if s, ok := v.(*Sc); ok {
			s.Ty = p.Type()
		}
		fr.setVal(p, v)
		r.assume(st, r.typeInv(st, v))
	}
	for _, p := range fn.FreeVars {
		// free variables hold addresses of captured variables
		pt, ok := p.Type().(*types.Pointer)
		if !ok {
			res.Err = fmt.Errorf("free variable %s is not a pointer", p.Name())
			return res
		}
		ref := r.ctx.fresh("fv."+p.Name(), sRef)
		r.assume(st, and(refLt("0", ref), refLt(ref, st.alloc)))
		t := pt.Elem()
		if isStruct(t) {
			fr.setVal(p, &Sc{T: ref, K: kRef, W: 32, Ty: p.Type()})
		} else {
			fr.setVal(p, &AddrV{Kind: "cell", Comp: "C." + typeKey(t), Ref: ref, Ty: t})
		}
	}
	// known contents of constant tables referenced by the function
	for _, b := range fn.Blocks {
		for _, in := range b.Instrs {
			for _, op := range in.Operands(nil) {
				if g, ok := (*op).(*ssa.Global); ok {
					if vals, ok := e.tableAS[g.Name()]; ok && g.Pkg == e.pkg {
						r.assumeTable(st, g, vals)
					}
				}
			}
		}
	}
	// lemmas made available
	if ct != nil {
		for _, u := range ct.Uses {
			ax, err := r.lemmaAxiom(u)
			if err != nil {
				res.Err = err
				return res
			}
			r.assume(st, ax)
		}
	}
	// preconditions
	fr.entry = st
	if ct != nil {
		for _, cl := range ct.Requires {
			g, err := fr.evalBool(cl.E, st, nil)
			if err != nil {
				res.Err = fmt.Errorf("requires %s: %v", cl.Label, err)
				return res
			}
			r.assume(st, g)
			fr.rebindFromExpr(cl.E, st, &evalEnv{fr: fr, st: st, old: st})
		}
	}
	entryGuard := st.guard
	fr.entryGuard = entryGuard
	results, out, err := fr.execBody(st)
	if err != nil {
		res.Err = err
		res.Unsup = r.unsup
		return res
	}
	fname := e.fnName(fn)
	info := &replayInfo{fn: fn, entry: fr.entry, results: results, exit: out, run: r}
	for _, p := range fn.Params {
		info.params = append(info.params, fr.vals[p])
	}
	// postconditions
	names := map[string]Value{}
	rn := resultNames(fn.Signature)
	for i, n := range rn {
		names[n] = results[i]
	}
	if len(results) == 1 {
		names["result"] = results[0]
	}
	fr.cur = nil
	// clauses of the form "err == nil && ... ==> ..." are checked against the exit state
	// restricted to the return sites that can return a nil error
	var okOut *State
	var okNames map[string]Value
	var okErrNames []string
	if okr, en := fr.okRets(); okr != nil {
		ores, ost, err := fr.mergeRets(okr)
		if err == nil {
			okOut = ost
			okErrNames = en
			okNames = map[string]Value{}
			for i, n := range rn {
				okNames[n] = ores[i]
			}
			if len(ores) == 1 {
				okNames["result"] = ores[0]
			}
		}
	}
	if ct != nil {
		okr, _ := fr.okRets()
		for _, cl := range ct.Ensures {
			if !r.active(cl.Tags) {
				continue
			}
			useOut, useNames := out, names
			rets := fr.rets
			if okOut != nil && guardedByNilErr(cl.E, okErrNames) {
				useOut, useNames = okOut, okNames
				rets = okr
			}
			if len(rets) >= 2 && len(rets) <= 32 {
				// one obligation per return site: the solvers handle the path-specific states
				// far better than their join
				for k, rr := range rets {
					nm := map[string]Value{}
					for i, n := range rn {
						nm[n] = rr.vals[i]
					}
					if len(rr.vals) == 1 {
						nm["result"] = rr.vals[0]
					}
					g, err := fr.evalBool(cl.E, rr.st, nm)
					if err != nil {
						res.Err = fmt.Errorf("ensures %s: %v", cl.Label, err)
						return res
					}
					r.addOblig(&Oblig{Name: fmt.Sprintf("%s#post#%s@ret%d", fname, cl.Label, k), Kind: "post", Func: fname, Label: cl.Label, Tags: cl.Tags, Text: cl.Text + "   [at the return at " + rr.pos + "]", Guard: rr.st.guard, Goal: g})
				}
				continue
			}
			g, err := fr.evalBool(cl.E, useOut, useNames)
			if err != nil {
				res.Err = fmt.Errorf("ensures %s: %v", cl.Label, err)
				return res
			}
			r.addOblig(&Oblig{Name: fname + "#post#" + cl.Label, Kind: "post", Func: fname, Label: cl.Label, Tags: cl.Tags, Text: cl.Text, Guard: useOut.guard, Goal: g})
		}
		for _, cl := range ct.AtCall {
			if cl.Call != "$return" || !r.active(cl.Tags) {
				continue
			}
			if cl.CallK != -1 {
				// one return site, in source order
				sites := append([]retRec(nil), fr.rets...)
				sort.SliceStable(sites, func(a, b int) bool { return sites[a].at < sites[b].at })
				k := cl.CallK
				if k == -2 {
					k = len(sites) - 1
				}
				if k < 0 || k >= len(sites) {
					res.Err = fmt.Errorf("at return#%d %s: the function has %d return sites", cl.CallK, cl.Label, len(sites))
					return res
				}
				rr := sites[k]
				nm := map[string]Value{}
				for i, n := range rn {
					nm[n] = rr.vals[i]
				}
				if len(rr.vals) == 1 {
					nm["result"] = rr.vals[0]
				}
				g, err := fr.evalBool(cl.E, rr.st, nm)
				if err != nil {
					res.Err = fmt.Errorf("at return %s: %v", cl.Label, err)
					return res
				}
				r.addOblig(&Oblig{Name: fname + "#assert#return." + cl.Label, Kind: "assert", Func: fname, Label: cl.Label, Tags: cl.Tags, Text: cl.Text + "   [at the return at " + rr.pos + "]", Guard: rr.st.guard, Goal: g})
				continue
			}
			g, err := fr.evalBool(cl.E, out, names)
			if err != nil {
				res.Err = fmt.Errorf("at return %s: %v", cl.Label, err)
				return res
			}
			r.addOblig(&Oblig{Name: fname + "#assert#return." + cl.Label, Kind: "assert", Func: fname, Label: cl.Label, Tags: cl.Tags, Text: cl.Text, Guard: out.guard, Goal: g})
		}
		// frame
		if !ct.Opts["noframe"] {
			if err := fr.frameObligations(ct, out, fname); err != nil {
				res.Err = err
				return res
			}
		}
	}
	// vacuity: the exit must be reachable under the assumptions made
	r.addOblig(&Oblig{Name: fname + "#cover#entry", Kind: "cover", Func: fname, Text: "preconditions are satisfiable", Guard: entryGuard, Goal: "false", Expect: "sat"})
	res.Obls = r.obls
	for k := range r.assumed {
		res.Assumed = append(res.Assumed, k)
	}
	for k := range r.inlined {
		res.Inlined = append(res.Inlined, k)
	}
	sort.Strings(res.Assumed)
	sort.Strings(res.Inlined)
	res.Used = r.usedContracts()
	res.Unsup = r.unsup
	var cubes []string
	if ct != nil {
		for _, se := range ct.Splits {
			fr.cur = nil
			g, err := fr.evalBool(se, fr.entry, nil)
			if err != nil {
				res.Err = fmt.Errorf("split %s: %v", exprString(se), err)
				return res
			}
			cubes = append(cubes, r.ctx.define("cube", sBool, g))
		}
	}
	for _, o := range res.Obls {
		if o.Expect == "sat" {
			o.Script = r.ctx.queryMode([]string{o.Guard, not(o.Goal)}, nil, 2)
			continue
		}
		o.Script = r.ctx.query([]string{o.Guard, not(o.Goal)}, nil)
		o.Alt = r.ctx.queryMode([]string{o.Guard, not(o.Goal)}, nil, 1)
		o.Cand = r.ctx.queryMode([]string{o.Guard, not(o.Goal)}, nil, 2)
		o.info = info
		if len(cubes) > 0 {
			o.Cubes = cubes
			o.ctxRef = r.ctx
		}
	}
	return res
}

// guardedByNilErr: e is  A ==> B  where A has the conjunct  <err> == nil.
func guardedByNilErr(e Expr, errNames []string) bool {
	b, ok := e.(*EBin)
	if !ok || b.Op != "==>" {
		return false
	}
	var conj func(x Expr) bool
	conj = func(x Expr) bool {
		if bb, ok := x.(*EBin); ok {
			if bb.Op == "&&" {
				return conj(bb.X) || conj(bb.Y)
			}
			if bb.Op == "==" {
				if id, ok := bb.X.(*EIdent); ok {
					if _, ok := bb.Y.(*ENil); ok {
						for _, n := range errNames {
							if n == id.Name {
								return true
							}
						}
					}
				}
			}
		}
		return false
	}
	return conj(b.X)
}

var usedByRun = map[*Run]map[string]bool{}

func (r *Run) usedContracts() []string {
	var out []string
	for k := range usedByRun[r] {
		out = append(out, k)
	}
	sort.Strings(out)
	return out
}

func (r *Run) noteUsed(name string) {
	m := usedByRun[r]
	if m == nil {
		m = map[string]bool{}
		usedByRun[r] = m
	}
	m[name] = true
}

func (r *Run) assumeTable(st *State, g *ssa.Global, vals []uint64) {
	key := "table:" + g.Name()
	if r.globals[key] != "" {
		return
	}
	r.globals[key] = "done"
	at := g.Type().(*types.Pointer).Elem().Underlying().(*types.Array)
	ls, err := leavesOf(at.Elem())
	if err != nil || len(ls) != 1 {
		return
	}
	ref := r.globalRef(g.RelString(nil))
	asort := sArr(sBV(64), ls[0].sort)
	t := fmt.Sprintf("((as const %s) %s)", asort, bvLit(0, ls[0].w))
	for i, v := range vals {
		t = sto(t, bvLit(uint64(i), 64), bvLit(v, ls[0].w))
	}
	tab := r.ctx.define("table."+g.Name(), asort, t)
	h := r.heap.get(st, elemComp(at.Elem()), sArr(sRef, asort))
	r.assume(st, eq(sel(h, ref), tab))
}

func (fr *Frame) frameObligations(ct *FuncContract, out *State, fname string) error {
	r := fr.run
	entry := fr.entry
	if out.epoch != entry.epoch {
		everything := false
		for _, m := range ct.ModText {
			if strings.HasPrefix(m, "everything") {
				everything = true
			}
		}
		if !everything {
			r.addOblig(&Oblig{Name: fname + "#frame#everything", Kind: "frame", Func: fname, Text: "an unmodelled callee may change anything; contract does not say modifies everything()", Guard: out.guard, Goal: "false"})
		}
		return nil
	}
	post := &postState{r: r, pre: entry, st: entry, mods: map[string][]string{}, done: map[string]bool{}}
	env := &evalEnv{fr: fr, st: entry, old: entry}
	for i, m := range ct.Modifies {
		if strings.HasPrefix(ct.ModText[i], "everything") {
			return nil
		}
		if err := fr.applyModifies(m, env, post); err != nil {
			return fmt.Errorf("modifies %s: %v", ct.ModText[i], err)
		}
	}
	var comps []string
	for c := range r.heap.comps {
		comps = append(comps, c)
	}
	sort.Strings(comps)
	for _, c := range comps {
		srt := r.heap.comps[c]
		a := r.heap.get(entry, c, srt)
		b := r.heap.get(out, c, srt)
		if a == b {
			continue
		}
		refs := post.mods[c]
		skip := false
		for _, x := range refs {
			if x == "*" {
				skip = true
			}
		}
		// components written only at references allocated by this very run (or re-recorded
		// by a callee postcondition read, which is a no-op for existing objects) need no proof
		onlyLocal := true
		for w := range r.heap.all[c] {
			if !r.allocRefs[w] && w != "$fresh" {
				onlyLocal = false
			}
		}
		if onlyLocal {
			skip = true
		}
		if skip {
			continue
		}
		r.addOblig(&Oblig{Name: fname + "#frame#" + c, Kind: "frame", Func: fname, Label: c, Text: "objects existing at entry and not listed in modifies are unchanged in " + c, Guard: out.guard, Goal: frameFormula(b, a, entry.alloc, refs)})
	}
	return nil
}

// ---------------------------------------------------------------------------
// Lemmas (code-independent facts about spec functions)

func (r *Run) lemmaParams(lm *Lemma, suffix string, bound bool) (map[string]Value, []string) {
	vals := map[string]Value{}
	var decls []string
	mk := func(n, srt string) string {
		if bound {
			decls = append(decls, "("+n+suffix+" "+srt+")")
			return n + suffix
		}
		return r.ctx.fresh("lp."+n, srt)
	}
	for _, p := range lm.Params {
		switch p.Type {
		case "[]byte":
			vals[p.Name] = &SeqV{Arr: mk(p.Name+".arr", sArr(sBV(64), sBV(8))), Off: mk(p.Name+".off", sBV(64)), Len: mk(p.Name+".len", sBV(64)), ElemSort: sBV(8), ElemK: kBV, ElemW: 8}
		default:
			vals[p.Name] = specScalar(mk(p.Name, specSort(p.Type)), p.Type)
		}
	}
	return vals, decls
}

func (r *Run) lemmaBody(lm *Lemma, vals map[string]Value) (req string, ens []string, dec string, err error) {
	fr := &Frame{run: r, names: map[string]Value{}, vals: map[ssa.Value]Value{}}
	lets := map[string]Expr{}
	for _, l := range lm.Lets {
		lets[l.Name] = l.E
	}
	env := &evalEnv{fr: fr, spec: vals, names: map[string]Value{}, lets: lets}
	var reqs []string
	for _, cl := range lm.Requires {
		g, e := fr.evalBoolEnv(cl.E, env)
		if e != nil {
			return "", nil, "", fmt.Errorf("lemma %s requires: %v", lm.Name, e)
		}
		reqs = append(reqs, g)
	}
	for _, cl := range lm.Ensures {
		g, e := fr.evalBoolEnv(cl.E, env)
		if e != nil {
			return "", nil, "", fmt.Errorf("lemma %s ensures %s: %v", lm.Name, cl.Label, e)
		}
		ens = append(ens, g)
	}
	if lm.Decreases != nil {
		v, e := fr.evalExpr(lm.Decreases, env)
		if e != nil {
			return "", nil, "", e
		}
		dec, e = asInt64(v)
		if e != nil {
			return "", nil, "", e
		}
	}
	return and(reqs...), ens, dec, nil
}

// lemmaAxiom states a lemma as a universally quantified fact.
func (r *Run) lemmaAxiom(name string) (string, error) {
	lm := r.eng.specs.Lemmas[name]
	if lm == nil {
		return "", fmt.Errorf("unknown lemma %s", name)
	}
	vals, decls := r.lemmaParams(lm, "!l", true)
	// "instance p = q": use the instance of the lemma in which p is q (every instance of a proved lemma holds)
	for p, q := range lm.Inst {
		if v, ok := vals[q]; ok {
			vals[p] = v
			var keep []string
			for _, d := range decls {
				if !strings.HasPrefix(d, "("+p+"!l ") {
					keep = append(keep, d)
				}
			}
			decls = keep
		}
	}
	req, ens, _, err := r.lemmaBody(lm, vals)
	if err != nil {
		return "", err
	}
	body := fmt.Sprintf("(=> %s %s)", req, and(ens...))
	if pat := lemmaPattern(decls, ens); lm.Trigger && pat != "" {
		return fmt.Sprintf("(forall (%s) (! %s :pattern (%s)))", strings.Join(decls, " "), body, pat), nil
	}
	return fmt.Sprintf("(forall (%s) %s)", strings.Join(decls, " "), body), nil
}

// lemmaPattern: when the conclusion consists of spec-function applications whose arguments are all variables or
// literals and which together mention every bound variable, use them as the (multi-)pattern of the axiom.
func lemmaPattern(decls []string, ens []string) string {
	covers := func(text string) bool {
		for _, d := range decls {
			name := strings.Fields(strings.TrimPrefix(d, "("))[0]
			if !strings.Contains(text, " "+name+" ") && !strings.Contains(text, " "+name+")") {
				return false
			}
		}
		return true
	}
	appRe := regexp.MustCompile(`\(spec\.[A-Za-z0-9_]+( [^() ]+)+\)`)
	var apps []string
	seen := map[string]bool{}
	for _, e := range ens {
		for _, a := range appRe.FindAllString(e, -1) {
			if !seen[a] {
				seen[a] = true
				apps = append(apps, a)
			}
		}
	}
	if len(apps) > 0 && len(apps) <= 3 && covers(strings.Join(apps, " ")+" ") {
		return strings.Join(apps, " ")
	}
	// otherwise: a single top-level application (arguments may be compound) that mentions every variable
	for _, e := range ens {
		for _, a := range topSpecApps(e) {
			if covers(a) {
				return a
			}
		}
	}
	return ""
}

func (e *Engine) verifyLemma(name string) *FuncResult {
	res := &FuncResult{Name: "lemma:" + name}
	lm := e.specs.Lemmas[name]
	if lm == nil {
		res.Err = fmt.Errorf("unknown lemma %s", name)
		return res
	}
	r := e.newRun("", false)
	vals, _ := r.lemmaParams(lm, "", false)
	req, ens, dec, err := r.lemmaBody(lm, vals)
	if err != nil {
		res.Err = err
		return res
	}
	guard := req
	for _, u := range lm.Uses {
		ax, err := r.lemmaAxiom(u)
		if err != nil {
			res.Err = err
			return res
		}
		guard = and(guard, ax)
	}
	if dec != "" {
		// induction hypothesis: the lemma for every instance with a smaller non-negative measure
		bvals, decls := r.lemmaParams(lm, "!ih", true)
		// parameters named after "fixed" keep their outer value: a weaker hypothesis, easier to instantiate
		for _, fx := range lm.Fixed {
			if v, ok := vals[fx]; ok {
				bvals[fx] = v
				var keep []string
				for _, d := range decls {
					if strings.HasPrefix(d, "("+fx+"!ih ") || strings.HasPrefix(d, "("+fx+".") {
						continue
					}
					keep = append(keep, d)
				}
				decls = keep
			}
		}
		if len(decls) == 0 {
			decls = []string{"(dummy!ih Bool)"}
		}
		// requires clauses that mention only fixed parameters already hold (they are in the guard): drop them
		// from the hypothesis' antecedent, so that no nested quantifier has to be re-proved to use it
		ihLm := lm
		if len(lm.Fixed) > 0 {
			cp := *lm
			cp.Requires = nil
			for _, cl := range lm.Requires {
				varying := false
				for _, p := range lm.Params {
					isFixed := false
					for _, fx := range lm.Fixed {
						if fx == p.Name {
							isFixed = true
						}
					}
					if !isFixed && regexp.MustCompile(`\b`+regexp.QuoteMeta(p.Name)+`\b`).MatchString(cl.Text) {
						varying = true
					}
				}
				if varying {
					cp.Requires = append(cp.Requires, cl)
				}
			}
			ihLm = &cp
		}
		breq, bens, bdec, err := r.lemmaBody(ihLm, bvals)
		if err != nil {
			res.Err = err
			return res
		}
		ih := fmt.Sprintf("(forall (%s) (=> (and (bvsle #x0000000000000000 %s) (bvslt %s %s) %s) %s))", strings.Join(decls, " "), bdec, bdec, dec, breq, and(bens...))
		guard = and(guard, ih)
	}
	g := r.ctx.define("lemma.g", sBool, guard)
	for i, cl := range lm.Ensures {
		o := &Oblig{Name: "lemma:" + name + "#lemma#" + cl.Label, Kind: "lemma", Func: "lemma:" + name, Label: cl.Label, Tags: lm.Tags, Text: cl.Text, Guard: g, Goal: ens[i], Slow: lm.Slow}
		r.addOblig(o)
	}
	res.Obls = r.obls
	for _, o := range res.Obls {
		o.Script = r.ctx.query([]string{o.Guard, not(o.Goal)}, nil)
		o.Alt = r.ctx.queryMode([]string{o.Guard, not(o.Goal)}, nil, 5)
	}
	return res
}

// topSpecApps returns the outermost "(spec.f ...)" applications in an SMT term.
func topSpecApps(t string) []string {
	var out []string
	for i := 0; i < len(t); i++ {
		if strings.HasPrefix(t[i:], "(spec.") {
			depth := 0
			for j := i; j < len(t); j++ {
				if t[j] == '(' {
					depth++
				} else if t[j] == ')' {
					depth--
					if depth == 0 {
						out = append(out, t[i:j+1])
						i = j
						break
					}
				}
			}
		}
	}
	return out
}
