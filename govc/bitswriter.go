package main

import (
	"fmt"
	"go/types"
	"os"
	"strings"

	"golang.org/x/tools/go/ssa"
)

// ---------------------------------------------------------------------------
// Assumed model of github.com/asticode/go-astikit BitsWriter (binary.go). It is part of
// the trusted base (listed in every evidence file that used it) and is cross-checked
// against the real implementation by the bounded differential test in /verif/bounded.
//
// Abstract state of a writer w: the real fields w.cache, w.cacheLen (pending bits, left
// aligned), w.w (the sink) and three ghost components of the sink object:
//   G.sinkN     bytes accepted so far
//   G.sinkData  their values
//   G.sinkFails number of Write calls on the sink that returned an error
//
// Writing k bits (k = 1..64) with value v: the cacheLen pending bits followed by the k new
// bits form a (cacheLen+k)-bit string; its first floor((cacheLen+k)/8) bytes go to the sink
// (one sink Write per byte), the rest stays pending. Any sink Write may fail: then the
// call returns a non-nil error, the sink has accepted a prefix of those bytes, the failure
// count grows and cache/cacheLen are unspecified. A *bytes.Buffer sink never fails.

const (
	compSinkN     = "G.sinkN"
	compSinkData  = "G.sinkData"
	compSinkFails = "G.sinkFails"
)

var (
	sortSinkN    = sArr(sRef, sBV(64))
	sortSinkData = sArr(sRef, sArr(sBV(64), sBV(8)))
)

type bwFields struct {
	cache, cacheLen, sinkTag, sinkRef string
	tCache, tCacheLen                 *types.Var
	st                                types.Type
}

func (r *Run) bwStruct(ptrT types.Type) (types.Type, *types.Struct) {
	st := ptrT.Underlying().(*types.Pointer).Elem()
	return st, st.Underlying().(*types.Struct)
}

func fieldByName(u *types.Struct, name string) *types.Var {
	for i := 0; i < u.NumFields(); i++ {
		if u.Field(i).Name() == name {
			return u.Field(i)
		}
	}
	return nil
}

// bitsWrite models writing the low k bits of v (a 64-bit term; k a 64-bit term, 1..64).
// Returns the error value.
func (fr *Frame) bitsWrite(st *State, w *Sc, v, k string, in ssa.Instruction) (Value, error) {
	r := fr.run
	r.assumed["model:astikit.BitsWriter (k-bit write)"] = true
	stT, u := r.bwStruct(w.Ty)
	fCache, fLen, fW := fieldByName(u, "cache"), fieldByName(u, "cacheLen"), fieldByName(u, "w")
	if fCache == nil || fLen == nil || fW == nil {
		return nil, r.unsupported("BitsWriter layout changed")
	}
	if in != nil {
		fr.nilCheck(st, w, in)
	}
	cacheV, _ := r.loadLeafs(st, fieldComp(stT, fCache), w.T, fCache.Type())
	lenV, _ := r.loadLeafs(st, fieldComp(stT, fLen), w.T, fLen.Type())
	sinkV, _ := r.loadLeafs(st, fieldComp(stT, fW), w.T, fW.Type())
	sink := sinkV.(*IfaceV)
	cache := cacheV.(*Sc).T
	clen := lenV.(*Sc).T
	c := r.ctx
	if r.faults {
		// fault model: only the accepted-byte count and the failure count are tracked
		r.assumed["model:astikit.BitsWriter fault mode (sink writes may fail; contents and bit cache not modelled)"] = true
		hN := r.heap.get(st, compSinkN, sortSinkN)
		hF := r.heap.get(st, compSinkFails, sortSinkN)
		ok := c.fresh("bw.ok", sBool)
		bufTag := r.tagOf(types.NewPointer(bytesBufferType(r)))
		r.assume(st, implies(eq(sink.Tag, bufTag), ok))
		add := c.fresh("bw.add", sBV(64))
		r.assume(st, "(bvule "+add+" #x0000000000000009)")
		r.heap.set(st, compSinkN, sortSinkN, sto(hN, sink.Ref, "(bvadd "+sel(hN, sink.Ref)+" "+add+")"), sink.Ref)
		r.heap.set(st, compSinkFails, sortSinkN, sto(hF, sink.Ref, ite(ok, sel(hF, sink.Ref), "(bvadd "+sel(hF, sink.Ref)+" #x0000000000000001)")), sink.Ref)
		return fr.bwError(st, ok), nil
	}
	r.assumed["model:astikit.BitsWriter exact mode (sink writes succeed; I/O failures are covered by C18's fault-mode run)"] = true
	if strings.HasPrefix(clen, "#x") && strings.HasPrefix(k, "#x") {
		return fr.bitsWriteConst(st, w, v, cache, clen, k, sink, stT, fCache, fLen)
	}
	if os.Getenv("GOVC_DEBUG_BW") != "" && r.dry == 0 {
		fmt.Fprintf(os.Stderr, "general bit-write path at %s in %s: clen=%s k=%s\n", posLabelIn(r, in), fr.fn.Name(), clen, k)
	}
	// 72-bit arithmetic
	z := func(t string, from int) string { return fmt.Sprintf("((_ zero_extend %d) %s)", 72-from, t) }
	k72 := c.define("bw.k", sBV(72), z(k, 64))
	cl72 := c.define("bw.cl", sBV(72), z(clen, 8))
	total := c.define("bw.total", sBV(72), "(bvadd "+cl72+" "+k72+")")
	pend := "(bvlshr " + z(cache, 8) + " (bvsub #x000000000000000008 " + cl72 + "))" // pending bits, right aligned
	maskK := "(bvlshr #x00ffffffffffffffff (bvsub #x000000000000000040 " + k72 + "))"
	x := "(bvor (bvshl " + pend + " " + k72 + ") (bvand " + z(v, 64) + " " + maskK + "))"
	y := c.define("bw.y", sBV(72), "(bvshl "+x+" (bvsub #x000000000000000048 "+total+"))")
	nb := c.define("bw.nb", sBV(64), "((_ extract 63 0) (bvlshr "+total+" #x000000000000000003))")
	byteAt := func(j int) string { return fmt.Sprintf("((_ extract %d %d) %s)", 71-8*j, 64-8*j, y) }
	// sink state
	hN := r.heap.get(st, compSinkN, sortSinkN)
	hD := r.heap.get(st, compSinkData, sortSinkData)
	hF := r.heap.get(st, compSinkFails, sortSinkN)
	n0 := c.define("bw.n0", sBV(64), sel(hN, sink.Ref))
	d := sel(hD, sink.Ref)
	for j := 0; j < 9; j++ {
		jj := bvLit(uint64(j), 64)
		d = ite("(bvult "+jj+" "+nb+")", sto(d, "(bvadd "+n0+" "+jj+")", byteAt(j)), d)
	}
	dOK := c.define("bw.data", sArr(sBV(64), sBV(8)), d)
	// new cache: byte number nb of y (bits beyond total are zero)
	newCache := "((_ extract 71 64) (bvshl " + y + " (bvshl " + z(nb, 64) + " #x000000000000000003)))"
	newLen := "((_ extract 7 0) (bvand " + total + " #x000000000000000007))"
	_ = hF
	r.heap.set(st, compSinkN, sortSinkN, sto(hN, sink.Ref, "(bvadd "+n0+" "+nb+")"), sink.Ref)
	r.heap.set(st, compSinkData, sortSinkData, sto(hD, sink.Ref, dOK), sink.Ref)
	r.assume(st, and("(bvsle #x0000000000000000 "+n0+")", "(bvslt "+n0+" #x0001000000000000)"))
	if err := r.storeLeafs(st, fieldComp(stT, fCache), w.T, fCache.Type(), bv(newCache, 8, false)); err != nil {
		return nil, err
	}
	if err := r.storeLeafs(st, fieldComp(stT, fLen), w.T, fLen.Type(), bv(newLen, 8, false)); err != nil {
		return nil, err
	}
	return &IfaceV{Tag: bvLit(0, 16), Ref: refLit(0)}, nil
}

// bitsWriteConst: the common case of a known number of pending bits and a literal width.
func (fr *Frame) bitsWriteConst(st *State, w *Sc, v, cache, clen, k string, sink *IfaceV, stT types.Type, fCache, fLen *types.Var) (Value, error) {
	r := fr.run
	c := r.ctx
	pu, _ := parseSMTValue(clen)
	ku, _ := parseSMTValue(k)
	P, K := int(pu), int(ku)
	if P > 7 || K < 1 || K > 64 {
		return nil, r.unsupported("BitsWriter state out of model range (cacheLen %d, width %d)", P, K)
	}
	val := fmt.Sprintf("((_ extract %d 0) %s)", K-1, v)
	S := val
	if P > 0 {
		S = fmt.Sprintf("(concat ((_ extract 7 %d) %s) %s)", 8-P, cache, val)
	}
	T := P + K
	Sn := c.define("bw.s", sBV(T), S)
	nb := T / 8
	hN := r.heap.get(st, compSinkN, sortSinkN)
	hD := r.heap.get(st, compSinkData, sortSinkData)
	n0 := c.define("bw.n0", sBV(64), r.ctx.selectOf(hN, sink.Ref))
	d := r.ctx.selectOf(hD, sink.Ref)
	for j := 0; j < nb; j++ {
		d = sto(d, "(bvadd "+n0+" "+bvLit(uint64(j), 64)+")", fmt.Sprintf("((_ extract %d %d) %s)", T-1-8*j, T-8-8*j, Sn))
	}
	if nb > 0 {
		r.heap.set(st, compSinkN, sortSinkN, sto(hN, sink.Ref, "(bvadd "+n0+" "+bvLit(uint64(nb), 64)+")"), sink.Ref)
		r.heap.set(st, compSinkData, sortSinkData, sto(hD, sink.Ref, c.define("bw.data", sArr(sBV(64), sBV(8)), d)), sink.Ref)
		r.assume(st, and("(bvsle #x0000000000000000 "+n0+")", "(bvslt "+n0+" #x0001000000000000)"))
	}
	rem := T % 8
	newCache := "#x00"
	if rem > 0 {
		newCache = fmt.Sprintf("(concat ((_ extract %d 0) %s) %s)", rem-1, Sn, bvLit(0, 8-rem))
	}
	if err := r.storeLeafs(st, fieldComp(stT, fCache), w.T, fCache.Type(), bv(newCache, 8, false)); err != nil {
		return nil, err
	}
	if err := r.storeLeafs(st, fieldComp(stT, fLen), w.T, fLen.Type(), bv(bvLit(uint64(rem), 8), 8, false)); err != nil {
		return nil, err
	}
	return &IfaceV{Tag: bvLit(0, 16), Ref: refLit(0)}, nil
}

// bwError builds the error result: nil when ok, otherwise a fresh non-nil error.
func (fr *Frame) bwError(st *State, ok string) Value {
	r := fr.run
	ref := r.newRef(st)
	return &IfaceV{Tag: ite(ok, bvLit(0, 16), bvLit(0xfff2, 16)), Ref: ite(ok, refLit(0), ref)}
}

func bytesBufferType(r *Run) types.Type {
	for _, p := range r.eng.prog.AllPackages() {
		if p.Pkg.Path() == "bytes" {
			if o := p.Pkg.Scope().Lookup("Buffer"); o != nil {
				return o.Type()
			}
		}
	}
	return types.Typ[types.Int]
}

// bytesWrite models writing a byte slice (plus pad bytes) through a byte-aligned writer:
// one sink Write of the slice. total = number of bytes emitted; the first min(len, total)
// come from the slice, the rest are pad.
func (fr *Frame) bytesWrite(st *State, w *Sc, s *SliceV, total string, pad string, in ssa.Instruction) (Value, error) {
	r := fr.run
	r.assumed["model:astikit.BitsWriter (byte-slice write)"] = true
	stT, u := r.bwStruct(w.Ty)
	fLen, fW := fieldByName(u, "cacheLen"), fieldByName(u, "w")
	if in != nil {
		fr.nilCheck(st, w, in)
	}
	lenV, _ := r.loadLeafs(st, fieldComp(stT, fLen), w.T, fLen.Type())
	sinkV, _ := r.loadLeafs(st, fieldComp(stT, fW), w.T, fW.Type())
	sink := sinkV.(*IfaceV)
	// the model covers byte-aligned slice writes only; that the writer is aligned here is an obligation
	aligned := eq(lenV.(*Sc).T, bvLit(0, 8))
	if r.faults {
		aligned = "true"
	}
	if r.dry == 0 && !r.faults {
		r.addOblig(&Oblig{Name: fr.oblName("pre@call", "BitsWriter.aligned@"+posLabelIn(r, in)), Kind: "pre@call", Func: r.eng.fnName(fr.fn), Label: "aligned", Text: "byte slices are written through a byte-aligned BitsWriter (model restriction)", Guard: st.guard, Goal: aligned})
	}
	r.assume(st, aligned)
	c := r.ctx
	hN := r.heap.get(st, compSinkN, sortSinkN)
	hD := r.heap.get(st, compSinkData, sortSinkData)
	hF := r.heap.get(st, compSinkFails, sortSinkN)
	n0 := c.define("bws.n0", sBV(64), sel(hN, sink.Ref))
	ok := "true"
	if r.faults {
		ok = c.fresh("bws.ok", sBool)
	}
	bufTag := r.tagOf(types.NewPointer(bytesBufferType(r)))
	r.assume(st, implies(eq(sink.Tag, bufTag), ok))
	r.assume(st, implies(eq(total, bvLit(0, 64)), ok))
	partial := c.fresh("bws.partial", sBV(64))
	r.assume(st, and("(bvsle #x0000000000000000 "+partial+")", "(bvsle "+partial+" "+total+")"))
	nd := c.fresh("bws.data", sArr(sBV(64), sBV(8)))
	old := sel(hD, sink.Ref)
	hM := r.heap.get(st, elemComp(s.Elem), sArr(sRef, sArr(sBV(64), sBV(8))))
	src := sel(hM, s.Base)
	fromSlice := c.define("bws.m", sBV(64), ite("(bvslt "+s.Len+" "+total+")", s.Len, total))
	// prefix preserved; on success the appended bytes are the slice then padding
	r.assume(st, fmt.Sprintf("(forall ((k!s (_ BitVec 64))) (! (=> (and (bvsle #x0000000000000000 k!s) (bvslt k!s %s)) (= (select %s k!s) (select %s k!s))) :pattern ((select %s k!s))))", n0, nd, old, nd))
	r.assume(st, and("(bvsle #x0000000000000000 "+n0+")", "(bvslt "+n0+" #x0001000000000000)"))
	r.assume(st, implies(ok, eq(r.seqOf(sBV(8), nd, n0, fromSlice), r.seqOf(sBV(8), src, s.Off, fromSlice))))
	r.assume(st, implies(ok, fmt.Sprintf("(forall ((k!p (_ BitVec 64))) (! (=> (and (bvsle (bvadd %s %s) k!p) (bvslt k!p (bvadd %s %s))) (= (select %s k!p) %s)) :pattern ((select %s k!p))))", n0, fromSlice, n0, total, nd, pad, nd)))
	r.heap.set(st, compSinkN, sortSinkN, sto(hN, sink.Ref, ite(ok, "(bvadd "+n0+" "+total+")", "(bvadd "+n0+" "+partial+")")), sink.Ref)
	r.heap.set(st, compSinkData, sortSinkData, sto(hD, sink.Ref, nd), sink.Ref)
	r.heap.set(st, compSinkFails, sortSinkN, sto(hF, sink.Ref, ite(ok, sel(hF, sink.Ref), "(bvadd "+sel(hF, sink.Ref)+" #x0000000000000001)")), sink.Ref)
	if ok == "true" {
		return &IfaceV{Tag: bvLit(0, 16), Ref: refLit(0)}, nil
	}
	return fr.bwError(st, ok), nil
}

func posLabelIn(r *Run, in ssa.Instruction) string {
	if in == nil {
		return "?"
	}
	return posLabel(r, in.Pos())
}

// bitsWriterIntrinsic dispatches the modelled BitsWriter methods.
func (fr *Frame) bitsWriterIntrinsic(st *State, name string, args []Value, in ssa.Instruction) (Value, bool, error) {
	r := fr.run
	switch name {
	case "(*astikit.BitsWriter).Write":
		w, ok := args[0].(*Sc)
		iv, ok2 := args[1].(*IfaceV)
		if !ok || !ok2 {
			return nil, true, r.unsupported("BitsWriter.Write arguments")
		}
		if iv.Conc == nil {
			return nil, true, r.unsupported("BitsWriter.Write of a value whose dynamic type is not statically known")
		}
		switch c := iv.Conc.(type) {
		case *Sc:
			switch {
			case c.K == kBool:
				v, err := fr.bitsWrite(st, w, ite(c.T, bvLit(1, 64), bvLit(0, 64)), bvLit(1, 64), in)
				return v, true, err
			case c.K == kBV && !c.Signed:
				v, err := fr.bitsWrite(st, w, toInt64(c), bvLit(uint64(c.W), 64), in)
				return v, true, err
			}
		case *SliceV:
			if types.Identical(c.Elem.Underlying(), types.Typ[types.Uint8]) {
				v, err := fr.bytesWrite(st, w, c, c.Len, bvLit(0, 8), in)
				return v, true, err
			}
		}
		// astikit returns errors.New("astikit: invalid type") for anything else
		return nil, true, r.unsupported("BitsWriter.Write of %s", iv.ConcTy)
	case "(*astikit.BitsWriter).WriteN":
		w, ok := args[0].(*Sc)
		iv, ok2 := args[1].(*IfaceV)
		n, ok3 := args[2].(*Sc)
		if !ok || !ok2 || !ok3 || iv.Conc == nil {
			return nil, true, r.unsupported("BitsWriter.WriteN arguments")
		}
		c, ok := iv.Conc.(*Sc)
		if !ok || c.K != kBV || c.Signed {
			return nil, true, r.unsupported("BitsWriter.WriteN of %s", iv.ConcTy)
		}
		k := toInt64(n)
		if r.dry == 0 {
			r.addOblig(&Oblig{Name: fr.oblName("pre@call", "BitsWriter.WriteN.width@"+posLabelIn(r, in)), Kind: "pre@call", Func: r.eng.fnName(fr.fn), Label: "width", Text: "WriteN width is between 1 and 64", Guard: st.guard, Goal: and("(bvsle #x0000000000000001 "+k+")", "(bvsle "+k+" #x0000000000000040)")})
		}
		r.assume(st, and("(bvsle #x0000000000000001 "+k+")", "(bvsle "+k+" #x0000000000000040)"))
		v, err := fr.bitsWrite(st, w, toInt64(c), k, in)
		return v, true, err
	case "(*astikit.BitsWriter).WriteBytesN":
		w, ok := args[0].(*Sc)
		s, ok2 := args[1].(*SliceV)
		n, ok3 := args[2].(*Sc)
		p, ok4 := args[3].(*Sc)
		if !ok || !ok2 || !ok3 || !ok4 {
			return nil, true, r.unsupported("BitsWriter.WriteBytesN arguments")
		}
		k := toInt64(n)
		if r.dry == 0 {
			r.addOblig(&Oblig{Name: fr.oblName("pre@call", "BitsWriter.WriteBytesN.n@"+posLabelIn(r, in)), Kind: "pre@call", Func: r.eng.fnName(fr.fn), Label: "n", Text: "WriteBytesN length is non-negative", Guard: st.guard, Goal: "(bvsle #x0000000000000000 " + k + ")"})
		}
		r.assume(st, "(bvsle #x0000000000000000 "+k+")")
		v, err := fr.bytesWrite(st, w, s, k, p.T, in)
		return v, true, err
	case "(*astikit.BitsWriter).SetWriteCallback":
		w, ok := args[0].(*Sc)
		cb, ok2 := args[1].(*Sc)
		if !ok || !ok2 {
			return nil, true, r.unsupported("SetWriteCallback arguments")
		}
		return packResults(nil), true, fr.setWriteCallback(st, w, cb, in)
	case "astikit.NewBitsWriter":
		r.assumed["model:astikit.NewBitsWriter"] = true
		o, ok := args[0].(*StructV)
		if !ok {
			return nil, true, r.unsupported("NewBitsWriter argument")
		}
		ou := o.Ty.Underlying().(*types.Struct)
		var writer Value
		var cb Value
		for i := 0; i < ou.NumFields(); i++ {
			switch ou.Field(i).Name() {
			case "Writer":
				writer = o.F[i]
			case "WriteCallback":
				cb = o.F[i]
			}
		}
		fn := r.eng.byName["astikit.NewBitsWriter"]
		pt := fn.Signature.Results().At(0).Type()
		stT, u := r.bwStruct(pt)
		ref := r.newRef(st)
		if err := r.zeroStruct(st, ref, stT); err != nil {
			return nil, true, err
		}
		if f := fieldByName(u, "w"); f != nil && writer != nil {
			if err := r.storeLeafs(st, fieldComp(stT, f), ref, f.Type(), writer); err != nil {
				return nil, true, err
			}
		}
		if f := fieldByName(u, "writeCb"); f != nil && cb != nil {
			if err := r.storeLeafs(st, fieldComp(stT, f), ref, f.Type(), cb); err != nil {
				return nil, true, err
			}
		}
		return &Sc{T: ref, K: kRef, W: 32, Ty: pt}, true, nil
	}
	return nil, false, nil
}

// ---------------------------------------------------------------------------
// Write callback (BitsWriter.SetWriteCallback). astikit calls the installed function with every byte the
// sink has accepted, in order (binary.go: write / flushBsCache). Model (exact mode only): once a closure of
// the function under verification is installed on writer w at sink position n0, then after every operation
// that advances the sink of w the closure's captured cells hold what the closure computes from their values
// at installation and the bytes n0..now of the sink - the closure is applied ONCE to all bytes emitted since
// installation instead of once per byte. The two agree for a closure that is a fold over the bytes
// (f(f(c,x),y) = f(c,x++y)); for the only callback in the repository (writePSISection: the running CRC)
// that is lemma crcSplit (proved under C10), given updateCRC32's contract. The closure body itself is
// executed symbolically (inlined), not assumed.
type cbRec struct {
	w    *Sc
	clo  *Sc
	n0   string
	init []Value
}

func (fr *Frame) sinkOf(st *State, w *Sc) (*IfaceV, error) {
	r := fr.run
	stT, u := r.bwStruct(w.Ty)
	fW := fieldByName(u, "w")
	if fW == nil {
		return nil, r.unsupported("BitsWriter layout changed")
	}
	v, err := r.loadLeafs(st, fieldComp(stT, fW), w.T, fW.Type())
	if err != nil {
		return nil, err
	}
	s, ok := v.(*IfaceV)
	if !ok {
		return nil, r.unsupported("BitsWriter sink")
	}
	return s, nil
}

func (fr *Frame) setWriteCallback(st *State, w *Sc, cb *Sc, in ssa.Instruction) error {
	r := fr.run
	stT, u := r.bwStruct(w.Ty)
	f := fieldByName(u, "writeCb")
	if f == nil {
		return r.unsupported("BitsWriter layout changed (writeCb)")
	}
	if in != nil {
		fr.nilCheck(st, w, in)
	}
	if err := r.storeLeafs(st, fieldComp(stT, f), w.T, f.Type(), cb); err != nil {
		return err
	}
	if cb.Fn == nil || r.faults {
		return nil
	}
	r.assumed["model:astikit.BitsWriter write callback (called with every byte the sink accepted, in order; applied once to the bytes since installation, which is the same for a fold - lemma crcSplit)"] = true
	if r.cbs == nil {
		r.cbs = map[string]*cbRec{}
	}
	sink, err := fr.sinkOf(st, w)
	if err != nil {
		return err
	}
	rec := &cbRec{w: w, clo: cb}
	rec.n0 = r.ctx.define("cb.n0", sBV(64), sel(r.heap.get(st, compSinkN, sortSinkN), sink.Ref))
	for _, b := range cb.Fn.Bind {
		if a, ok := b.(*AddrV); ok && a.Kind != "arr" {
			v, err := r.load(st, a)
			if err != nil {
				return err
			}
			rec.init = append(rec.init, v)
		} else {
			rec.init = append(rec.init, nil)
		}
	}
	r.cbs[cb.T] = rec
	r.cbOrder = append(r.cbOrder, cb.T)
	return nil
}

// cbBefore records, for every installed callback, how many bytes its writer's sink holds.
func (fr *Frame) cbBefore(st *State) []string {
	r := fr.run
	if len(r.cbs) == 0 || r.inCb || r.faults {
		return nil
	}
	out := make([]string, 0, len(r.cbOrder))
	for _, k := range r.cbOrder {
		rec := r.cbs[k]
		sink, err := fr.sinkOf(st, rec.w)
		if err != nil {
			out = append(out, "")
			continue
		}
		out = append(out, sel(r.heap.get(st, compSinkN, sortSinkN), sink.Ref))
	}
	return out
}

// cbAfter applies the installed callbacks whose sink has advanced during the call just made.
func (fr *Frame) cbAfter(st *State, before []string) error {
	r := fr.run
	if before == nil || r.inCb {
		return nil
	}
	for i, k := range r.cbOrder {
		if i >= len(before) {
			break
		}
		rec := r.cbs[k]
		sink, err := fr.sinkOf(st, rec.w)
		if err != nil {
			return err
		}
		now := sel(r.heap.get(st, compSinkN, sortSinkN), sink.Ref)
		if now == before[i] {
			continue
		}
		stT, u := r.bwStruct(rec.w.Ty)
		f := fieldByName(u, "writeCb")
		cur, err := r.loadLeafs(st, fieldComp(stT, f), rec.w.T, f.Type())
		if err != nil {
			return err
		}
		cond := eq(cur.(*Sc).T, rec.clo.T)
		if cond == "false" {
			continue
		}
		run, skip := st, (*State)(nil)
		if cond != "true" {
			run = st.clone()
			r.assume(run, cond)
			skip = st.clone()
			r.assume(skip, not(cond))
		}
		for j, b := range rec.clo.Fn.Bind {
			if a, ok := b.(*AddrV); ok && j < len(rec.init) && rec.init[j] != nil {
				if err := r.store(run, a, rec.init[j]); err != nil {
					return err
				}
			}
		}
		fn := rec.clo.Fn.Fn.(*ssa.Function)
		if len(fn.Params) != 1 {
			return r.unsupported("write callback with %d parameters", len(fn.Params))
		}
		sl, ok := fn.Params[0].Type().Underlying().(*types.Slice)
		if !ok {
			return r.unsupported("write callback parameter")
		}
		ref := r.newRef(run)
		comp := elemComp(sl.Elem())
		srt := sArr(sRef, sArr(sBV(64), sBV(8)))
		hM := r.heap.get(run, comp, srt)
		r.heap.set(run, comp, srt, sto(hM, ref, sel(r.heap.get(run, compSinkData, sortSinkData), sink.Ref)), ref)
		ln := r.ctx.define("cb.len", sBV(64), "(bvsub "+now+" "+rec.n0+")")
		arg := &SliceV{Base: ref, Off: rec.n0, Len: ln, Cap: ln, Elem: sl.Elem()}
		r.inCb = true
		_, err = fr.callValue(run, rec.clo, rec.clo.Ty, []Value{arg}, nil)
		r.inCb = false
		if err != nil {
			return err
		}
		if skip != nil {
			m := r.heap.merge([]*State{run, skip})
			*st = *m
		}
	}
	return nil
}
