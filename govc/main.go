package main

import (
	"encoding/json"
	"flag"
	"fmt"
	"os"
	"path/filepath"
	"sort"
	"strconv"
	"strings"
	"sync"
	"time"
)

// repoDir is /repo for every registered command; GOVC_REPO points the verifier at a scratch copy (only used by
// /verif/seeded/run_seeded_par.sh to try seeded changes without touching /repo).
var repoDir = func() string {
	if d := os.Getenv("GOVC_REPO"); d != "" {
		return d
	}
	return "/repo"
}()
const verifDir = "/verif"

func loadSpecs() (*Specs, error) {
	sp := newSpecs()
	specDir := filepath.Join(verifDir, "spec")
	if d := os.Getenv("GOVC_SPEC_DIR"); d != "" {
		specDir = d // development only: try spec changes without touching the files the registered checks read
	}
	files, _ := filepath.Glob(filepath.Join(specDir, "*.spec"))
	sort.Strings(files)
	for _, f := range files {
		if err := sp.loadFile(f, false); err != nil {
			return nil, err
		}
	}
	cf := filepath.Join(repoDir, "contracts_verif.go")
	if o := os.Getenv("GOVC_CONTRACTS"); o != "" {
		cf = o // development only: read the master copy before it is synced into /repo
	}
	if _, err := os.Stat(cf); err == nil {
		if err := sp.loadFile(cf, true); err != nil {
			return nil, err
		}
	}
	globalTagSets = sp.TagSets
	return sp, nil
}

func setup() (*Engine, error) {
	sp, err := loadSpecs()
	if err != nil {
		return nil, fmt.Errorf("contracts: %v", err)
	}
	e, err := loadEngine(repoDir)
	if err != nil {
		return nil, fmt.Errorf("loading %s: %v", repoDir, err)
	}
	e.specs = sp
	return e, nil
}

func main() {
	if len(os.Args) < 2 {
		fmt.Fprintln(os.Stderr, "usage: govc check|func|lemma|list ...")
		os.Exit(2)
	}
	wd := os.Getenv("GOVC_WORK")
	if wd == "" {
		wd = filepath.Join(verifDir, "work", strconv.Itoa(os.Getpid()))
	}
	os.MkdirAll(wd, 0o755)
	workDir = wd
	code := 0
	switch os.Args[1] {
	case "func":
		code = cmdFunc(os.Args[2:])
	case "lemma":
		code = cmdLemma(os.Args[2:])
	case "check":
		code = cmdCheck(os.Args[2:])
	case "gen-sweep":
		code = cmdGenSweep(os.Args[2:])
	case "replay":
		code = cmdReplay(os.Args[2:])
	default:
		fmt.Fprintln(os.Stderr, "unknown command", os.Args[1])
		code = 2
	}
	if os.Getenv("GOVC_KEEP") == "" {
		os.RemoveAll(wd)
	}
	os.Exit(code)
}

// solveAll discharges obligations in parallel.
func solveAll(obls []*Oblig, budget int) {
	var wg sync.WaitGroup
	sem := make(chan struct{}, 48)
	for _, o := range obls {
		o := o
		if o.Res.Status != "" {
			continue
		}
		if o.Goal == "true" && o.Expect == "unsat" {
			o.Res = SolveResult{Status: "unsat", Solver: "trivial"}
			continue
		}
		wg.Add(1)
		sem <- struct{}{}
		go func() {
			defer wg.Done()
			defer func() { <-sem }()
			b := budget
			if o.Expect == "sat" && b > 20 {
				b = 20
			}
			o.Res = solveOblig(o, b)
		}()
	}
	wg.Wait()
}

func cmdFunc(args []string) int {
	fs := flag.NewFlagSet("func", flag.ExitOnError)
	prop := fs.String("p", "", "property tag")
	safety := fs.Bool("safety", false, "generate safety obligations")
	budget := fs.Int("t", 60, "solver budget (s)")
	dump := fs.Bool("dump", false, "keep SMT files and print paths")
	fs.Parse(args)
	e, err := setup()
	if err != nil {
		fmt.Fprintln(os.Stderr, err)
		return 2
	}
	if *dump {
		os.Setenv("GOVC_KEEP", "1")
	}
	loadKnownOpen(*prop)
	bad := 0
	for _, name := range fs.Args() {
		t0 := time.Now()
		res := e.verifyFunc(name, *prop, *safety)
		if res.Err != nil {
			fmt.Printf("%s: GENERATOR ERROR: %v\n", name, res.Err)
			for _, u := range res.Unsup {
				fmt.Println("   unsupported:", u)
			}
			bad++
			continue
		}
		solveAll(res.Obls, *budget)
		for _, o := range res.Obls {
			ok := o.Res.Status == o.Expect
			mark := "ok  "
			if !ok {
				mark = "FAIL"
				bad++
			}
			fmt.Printf("  %s %-70s %-8s %-12s %.2fs", mark, o.Name, o.Res.Status, o.Res.Solver, o.Res.Seconds)
			if *dump || !ok {
				fmt.Printf("  %s", o.Res.File)
			}
			fmt.Println()
		}
		fmt.Printf("%s: %d obligations, %.1fs; used=%v assumed=%v inlined=%d\n", name, len(res.Obls), time.Since(t0).Seconds(), res.Used, res.Assumed, len(res.Inlined))
	}
	if bad > 0 {
		return 1
	}
	return 0
}

func cmdLemma(args []string) int {
	fs := flag.NewFlagSet("lemma", flag.ExitOnError)
	budget := fs.Int("t", 120, "solver budget (s)")
	dump := fs.Bool("dump", false, "keep SMT files")
	fs.Parse(args)
	if *dump {
		os.Setenv("GOVC_KEEP", "1")
	}
	sp, err := loadSpecs()
	if err != nil {
		fmt.Fprintln(os.Stderr, err)
		return 2
	}
	e := &Engine{specs: sp}
	bad := 0
	names := fs.Args()
	if len(names) == 0 {
		names = sp.LemmaOrd
	}
	for _, n := range names {
		res := e.verifyLemma(n)
		if res.Err != nil {
			fmt.Printf("lemma %s: ERROR %v\n", n, res.Err)
			bad++
			continue
		}
		solveAll(res.Obls, *budget)
		for _, o := range res.Obls {
			ok := o.Res.Status == o.Expect
			mark := "ok  "
			if !ok {
				mark = "FAIL"
				bad++
			}
			fmt.Printf("  %s %-60s %-8s %-12s %.2fs %s\n", mark, o.Name, o.Res.Status, o.Res.Solver, o.Res.Seconds, o.Res.File)
		}
	}
	if bad > 0 {
		return 1
	}
	return 0
}

func cmdReplay(args []string) int {
	if len(args) < 1 {
		fmt.Fprintln(os.Stderr, "usage: govc replay <file>")
		return 2
	}
	b, err := os.ReadFile(args[0])
	if err != nil {
		fmt.Fprintln(os.Stderr, err)
		return 2
	}
	var rf map[string]interface{}
	if err := json.Unmarshal(b, &rf); err != nil {
		fmt.Fprintln(os.Stderr, err)
		return 2
	}
	out, _ := json.MarshalIndent(rf, "", " ")
	fmt.Println(string(out))
	return 0
}

var _ = strings.TrimSpace
