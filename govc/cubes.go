package main

import (
	"fmt"
	"strings"
	"sync"
)

// solveOblig: a quick attempt on the whole query; if that is not decisive and the contract
// names split conditions, the query is decided by exhaustive case analysis over them (every
// case must be unsat; a sat case is a counterexample of the whole query); finally the race.
// knownOpen: obligations listed as open findings in known_findings.json (by base name).
var knownOpen = map[string]bool{}

// knownOpenAny: the open findings of every property (their clauses are never assumed at call sites).
var knownOpenAny = map[string]bool{}

func solveOblig(o *Oblig, budget int) SolveResult {
	if r, ok := cacheLookup(o); ok {
		return r
	}
	if knownOpen[baseObl(o.Name)] && budget > 6 {
		// recorded as failing on the unchanged tree: do not spend the budget rediscovering that
		budget = 6
	}
	r := solveObligUncached(o, budget)
	cacheStore(o, r)
	return r
}

func solveObligUncached(o *Oblig, budget int) SolveResult {
	if len(o.Cubes) == 0 || o.Expect == "sat" {
		return solve2(o.Name, o.Script, o.Alt, budget)
	}
	quick := solve2(o.Name, o.Script, "", 3)
	if quick.Status == "unsat" || quick.Status == "sat" {
		return quick
	}
	n := len(o.Cubes)
	if n > 7 {
		n = 7
	}
	total := 1 << uint(n)
	results := make([]SolveResult, total)
	var wg sync.WaitGroup
	for c := 0; c < total; c++ {
		var lits []string
		for i := 0; i < n; i++ {
			if c&(1<<uint(i)) != 0 {
				lits = append(lits, o.Cubes[i])
			} else {
				lits = append(lits, not(o.Cubes[i]))
			}
		}
		script := o.ctxRef.query([]string{o.Guard, not(o.Goal), and(lits...)}, nil)
		wg.Add(1)
		go func(c int, script string) {
			defer wg.Done()
			per := budget / 3
			if per < 5 {
				per = 5
			}
			results[c] = solve2(fmt.Sprintf("%s.cube%d", o.Name, c), script, "-", per)
		}(c, script)
	}
	wg.Wait()
	secs := quick.Seconds
	allUnsat := true
	solversUsed := map[string]bool{}
	for _, r := range results {
		secs += r.Seconds
		solversUsed[r.Solver] = true
		if r.Status == "sat" {
			r.Solver += fmt.Sprintf(" (case split over %d conditions)", n)
			return r
		}
		if r.Status != "unsat" {
			allUnsat = false
		}
	}
	if allUnsat {
		var ss []string
		for s := range solversUsed {
			ss = append(ss, s)
		}
		return SolveResult{Status: "unsat", Solver: fmt.Sprintf("case split (%d cases; %s)", total, strings.Join(ss, ",")), Seconds: secs, File: quick.File, SHA: quick.SHA}
	}
	res := solve2(o.Name, o.Script, o.Alt, budget)
	res.Seconds += secs
	return res
}
