package main

import (
	"fmt"
	"go/ast"
	"go/constant"
	"go/token"
	"go/types"
	"math"
	"sort"
	"strings"
	"sync"

	"golang.org/x/tools/go/packages"
	"golang.org/x/tools/go/ssa"
	"golang.org/x/tools/go/ssa/ssautil"
)

// ---------------------------------------------------------------------------
// Engine: the loaded program + specs

type Engine struct {
	prog    *ssa.Program
	pkg     *ssa.Package
	tpkg    *packages.Package
	specs   *Specs
	byName  map[string]*ssa.Function
	tableAS map[string][]uint64 // global array initialisers (name -> values)
}

func loadEngine(repo string) (*Engine, error) {
	cfg := &packages.Config{Mode: packages.LoadAllSyntax, Dir: repo, BuildFlags: []string{"-tags=verif"}}
	pkgs, err := packages.Load(cfg, ".")
	if err != nil {
		return nil, err
	}
	if len(pkgs) != 1 {
		return nil, fmt.Errorf("expected one package, got %d", len(pkgs))
	}
	if len(pkgs[0].Errors) > 0 {
		return nil, fmt.Errorf("package errors: %v", pkgs[0].Errors)
	}
	prog, spkgs := ssautil.AllPackages(pkgs, ssa.GlobalDebug|ssa.BareInits)
	prog.Build()
	e := &Engine{prog: prog, pkg: spkgs[0], tpkg: pkgs[0], byName: map[string]*ssa.Function{}, tableAS: map[string][]uint64{}}
	for fn := range ssautil.AllFunctions(prog) {
		e.byName[e.fnName(fn)] = fn
	}
	e.scanArrayInits()
	return e, nil
}

// fnName gives the contract-file name of a function.
func (e *Engine) fnName(fn *ssa.Function) string {
	s := fn.RelString(e.pkg.Pkg)
	s = strings.ReplaceAll(s, "github.com/asticode/go-astikit", "astikit")
	s = strings.ReplaceAll(s, "github.com/asticode/go-astits", "astits")
	return s
}

// scanArrayInits records the literal initialisers of package-level arrays of
// integers (tableCRC32) from the AST of the current tree.
func (e *Engine) scanArrayInits() {
	for _, f := range e.tpkg.Syntax {
		for _, d := range f.Decls {
			gd, ok := d.(*ast.GenDecl)
			if !ok || gd.Tok != token.VAR {
				continue
			}
			for _, s := range gd.Specs {
				vs := s.(*ast.ValueSpec)
				if len(vs.Names) != 1 || len(vs.Values) != 1 {
					continue
				}
				cl, ok := vs.Values[0].(*ast.CompositeLit)
				if !ok {
					continue
				}
				tv := e.tpkg.TypesInfo.Types[cl]
				at, ok := tv.Type.Underlying().(*types.Array)
				if !ok {
					continue
				}
				if _, ok := at.Elem().Underlying().(*types.Basic); !ok {
					continue
				}
				var vals []uint64
				good := true
				for _, el := range cl.Elts {
					cv := e.tpkg.TypesInfo.Types[el].Value
					if cv == nil {
						good = false
						break
					}
					u, ok := constant.Uint64Val(constant.ToInt(cv))
					if !ok {
						good = false
						break
					}
					vals = append(vals, u)
				}
				if good && int64(len(vals)) == at.Len() {
					e.tableAS[vs.Names[0].Name] = vals
				}
			}
		}
	}
}

// ---------------------------------------------------------------------------
// One verification run (a function under contract, with everything it inlines)

type Oblig struct {
	Name   string
	Kind   string
	Func   string
	Label  string
	Tags   []string
	Text   string
	Guard  string
	Goal   string
	Expect string // "unsat" (proof) or "sat" (cover)
	Script string
	Alt    string
	Cand   string
	Cubes  []string // boolean terms to case-split on when the plain query is too slow
	ctxRef *Ctx
	info   *replayInfo
	inLoop bool
	Res    SolveResult
	Slow   bool
}

type Run struct {
	eng       *Engine
	ctx       *Ctx
	heap      *Heap
	obls      []*Oblig
	prop      string // active property tag ("" = every clause)
	safety    bool   // generate Go safety obligations
	dry       int
	unsup     []string
	fld       map[string]bool
	globals   map[string]string
	typeTag   map[string]int
	assumed   map[string]bool // names of assumed (extern / modelled) callees
	inlined   map[string]bool
	fnConst   map[*ssa.Function]string
	axioms    []string
	top       *Frame
	oblSeen   map[string]int
	allocRefs map[string]bool
	mu        sync.Mutex
	cbs       map[string]*cbRec // write callbacks installed by the function under verification (bitswriter.go)
	cbOrder   []string
	inCb      bool
	faults    bool // BitsWriter model: sink writes may fail (C18); otherwise they succeed and contents are exact
}

func (e *Engine) newRun(prop string, safety bool) *Run {
	ctx := newCtx()
	r := &Run{eng: e, ctx: ctx, heap: newHeap(ctx), prop: prop, safety: safety, faults: prop == "C18",
		fld: map[string]bool{}, globals: map[string]string{}, typeTag: map[string]int{},
		assumed: map[string]bool{}, inlined: map[string]bool{}, fnConst: map[*ssa.Function]string{}, oblSeen: map[string]int{}}
	r.emitSpecPrelude()
	return r
}

func (r *Run) unsupported(format string, args ...interface{}) error {
	msg := fmt.Sprintf(format, args...)
	r.unsup = append(r.unsup, msg)
	return fmt.Errorf("unsupported: %s", msg)
}

// thoroughTier: clauses tagged THOROUGH are generated only in the thorough tier (their obligations need
// minutes of solver time; the quick tier says so in its evidence).
var thoroughTier bool
var skippedThorough bool

func (r *Run) active(tags []string) bool {
	for _, t := range tags {
		if t == "THOROUGH" && !thoroughTier {
			skippedThorough = true
			return false
		}
	}
	if r.prop == "" || len(tags) == 0 || r.prop == "C03" {
		// the no-panic sweep (C03) leans on every functional clause of the functions it covers
		return true
	}
	return hasTag(tags, r.prop)
}

func (r *Run) addOblig(o *Oblig) {
	if r.dry > 0 {
		return
	}
	if o.Goal == "true" {
		// trivially discharged; still count it
	}
	n := r.oblSeen[o.Name]
	r.oblSeen[o.Name] = n + 1
	if n > 0 {
		o.Name = fmt.Sprintf("%s~%d", o.Name, n)
	}
	if o.Expect == "" {
		o.Expect = "unsat"
	}
	if r.top != nil && r.top.cur != nil {
		for _, li := range r.top.loops {
			if li.blocks[r.top.cur] {
				o.inLoop = true
			}
		}
	}
	if strings.HasPrefix(o.Kind, "inv.") || o.Kind == "dec" {
		o.inLoop = true
	}
	r.obls = append(r.obls, o)
}

// ---------------------------------------------------------------------------
// Frames

type deferRec struct {
	call  *ssa.CallCommon
	guard string
	args  []Value
	fnv   Value
}

type retRec struct {
	st   *State
	vals []Value
	pos  string
	at   token.Pos
}

type loopInfo struct {
	header  *ssa.BasicBlock
	blocks  map[*ssa.BasicBlock]bool
	ordinal int
	iter    *Sc // ghost iteration counter at header
}

type Frame struct {
	run       *Run
	fn        *ssa.Function
	vals      map[ssa.Value]Value
	contract  *FuncContract
	depth     int
	prefix    string // obligation name prefix for inlined frames
	entry     *State
	order     []*ssa.BasicBlock
	rpoIdx    map[*ssa.BasicBlock]int
	loops     map[*ssa.BasicBlock]*loopInfo
	edgeSt    map[[2]int]*State
	rets      []retRec
	defers    []deferRec
	callCount map[string]int
	lastRet   map[string]Value // results of the latest call through an unknown function value, by its term
	locals    map[string][]ssa.Value // source name -> SSA values (from DebugRef)
	localAt   map[string][]*ssa.DebugRef // the reference each of those values was recorded at (same order)
	localAddr map[string]ssa.Value   // source name -> address (address-taken locals)
	cur       *ssa.BasicBlock
	names     map[string]Value // overrides (loop phis, results)
	lets      map[string]Expr
	stack     []*ssa.Function
	readOrd   map[ssa.Instruction]string // load of a struct field -> "Type.field#k"
	entryGuard string
}

func (r *Run) newFrame(fn *ssa.Function, depth int) *Frame {
	fr := &Frame{run: r, fn: fn, vals: map[ssa.Value]Value{}, depth: depth,
		rpoIdx: map[*ssa.BasicBlock]int{}, loops: map[*ssa.BasicBlock]*loopInfo{},
		edgeSt: map[[2]int]*State{}, callCount: map[string]int{}, locals: map[string][]ssa.Value{}, localAt: map[string][]*ssa.DebugRef{},
		localAddr: map[string]ssa.Value{}, names: map[string]Value{}, lets: map[string]Expr{}}
	fr.analyse()
	return fr
}

func (fr *Frame) analyse() {
	fn := fr.fn
	if len(fn.Blocks) == 0 {
		return
	}
	// reverse postorder from entry
	seen := map[*ssa.BasicBlock]bool{}
	var post []*ssa.BasicBlock
	var dfs func(b *ssa.BasicBlock)
	dfs = func(b *ssa.BasicBlock) {
		seen[b] = true
		for _, s := range b.Succs {
			if !seen[s] {
				dfs(s)
			}
		}
		post = append(post, b)
	}
	dfs(fn.Blocks[0])
	for i := len(post) - 1; i >= 0; i-- {
		fr.rpoIdx[post[i]] = len(fr.order)
		fr.order = append(fr.order, post[i])
	}
	// natural loops
	var headers []*ssa.BasicBlock
	for _, u := range fr.order {
		for _, h := range u.Succs {
			if h.Dominates(u) {
				li := fr.loops[h]
				if li == nil {
					li = &loopInfo{header: h, blocks: map[*ssa.BasicBlock]bool{h: true}}
					fr.loops[h] = li
					headers = append(headers, h)
				}
				// add all blocks reaching u without passing h
				var stack []*ssa.BasicBlock
				if !li.blocks[u] {
					li.blocks[u] = true
					stack = append(stack, u)
				}
				for len(stack) > 0 {
					x := stack[len(stack)-1]
					stack = stack[:len(stack)-1]
					for _, p := range x.Preds {
						if !li.blocks[p] && seen[p] {
							li.blocks[p] = true
							stack = append(stack, p)
						}
					}
				}
			}
		}
	}
	sort.Slice(headers, func(i, j int) bool { return headers[i].Index < headers[j].Index })
	for i, h := range headers {
		fr.loops[h].ordinal = i
	}
	// static ordinals of field loads (anchors for "at read" ghost assertions)
	fr.readOrd = map[ssa.Instruction]string{}
	cnt := map[string]int{}
	for _, b := range fn.Blocks {
		for _, in := range b.Instrs {
			u, ok := in.(*ssa.UnOp)
			if !ok || u.Op != token.MUL {
				continue
			}
			fa, ok := u.X.(*ssa.FieldAddr)
			if !ok {
				continue
			}
			pt, ok := fa.X.Type().Underlying().(*types.Pointer)
			if !ok {
				continue
			}
			st, ok := pt.Elem().Underlying().(*types.Struct)
			if !ok {
				continue
			}
			tn := typeKey(pt.Elem())
			if n, ok := pt.Elem().(*types.Named); ok {
				tn = n.Obj().Name()
			}
			key := tn + "." + st.Field(fa.Field).Name()
			fr.readOrd[in] = fmt.Sprintf("%s#%d", key, cnt[key])
			cnt[key]++
		}
	}
	// locals from DebugRef
	for _, b := range fn.Blocks {
		for _, in := range b.Instrs {
			if d, ok := in.(*ssa.DebugRef); ok {
				id, ok := d.Expr.(*ast.Ident)
				if !ok {
					continue
				}
				if d.IsAddr {
					fr.localAddr[id.Name] = d.X
				} else {
					fr.locals[id.Name] = append(fr.locals[id.Name], d.X)
					fr.localAt[id.Name] = append(fr.localAt[id.Name], d)
				}
			}
		}
	}
}

func (fr *Frame) hasLoops() bool { return len(fr.loops) > 0 }

func (fr *Frame) oblName(kind, label string) string {
	return fr.prefix + fr.run.eng.fnName(fr.fn) + "#" + kind + "#" + label
}

// ---------------------------------------------------------------------------
// Helpers over state

func (r *Run) assume(st *State, c string) {
	if c == "true" {
		return
	}
	st.guard = r.ctx.defineGuard(st.guard, c)
}

func (r *Run) newRef(st *State) string {
	ref := st.alloc
	if r.allocRefs == nil {
		r.allocRefs = map[string]bool{}
	}
	r.allocRefs[ref] = true
	r.ctx.allocSyms[ref] = true
	st.alloc = r.ctx.define("alloc", sRef, fmt.Sprintf("(+ %s %d)", st.alloc, refStride))
	return ref
}

// References are addresses in a flat space: every top-level object sits at a multiple of
// refStride, and a struct embedded in another (Packet.Header, Muxer.pmt) sits at its
// parent's address plus a layout offset. Pointers to embedded structs are therefore
// ordinary references, injective by construction, and ordered like their parents.
const refStride = 1 << 20

func structSize(t types.Type) int64 {
	u, ok := t.Underlying().(*types.Struct)
	if !ok {
		return 1
	}
	n := int64(1)
	for i := 0; i < u.NumFields(); i++ {
		n += structSize(u.Field(i).Type())
	}
	return n
}

func fieldOffset(t types.Type, f *types.Var) int64 {
	u := t.Underlying().(*types.Struct)
	off := int64(1)
	for i := 0; i < u.NumFields(); i++ {
		if u.Field(i) == f {
			return off
		}
		off += structSize(u.Field(i).Type())
	}
	return off
}

func (r *Run) fldRefT(structT types.Type, f *types.Var, base string) string {
	return fmt.Sprintf("(+ %s %d)", base, fieldOffset(structT, f))
}

// seqOf returns the abstract sequence  sub(arr, off, n)  over elements of sort es. Two
// sequences are equal exactly when they have the same length and elements; only the
// "elements" direction is axiomatised (sound: the function is otherwise uninterpreted).
func (r *Run) seqOf(es, arr, off, n string) string {
	id := sanitize(es)
	fn := "sub." + id
	r.declareOnce(fmt.Sprintf("(declare-sort Seq.%s 0)", id))
	r.declareOnce(fmt.Sprintf("(declare-fun %s (%s (_ BitVec 64) (_ BitVec 64)) Seq.%s)", fn, sArr(sBV(64), es), id))
	r.declareOnce(fmt.Sprintf("(declare-fun at.%s (Seq.%s (_ BitVec 64)) %s)", id, id, es))
	r.declareOnce(fmt.Sprintf("(declare-fun len.%s (Seq.%s) (_ BitVec 64))", id, id))
	r.declareOnce(fmt.Sprintf("(assert (forall ((a %s) (o (_ BitVec 64)) (n (_ BitVec 64)) (k (_ BitVec 64))) (! (=> (and (bvsle #x0000000000000000 k) (bvslt k n)) (= (at.%s (%s a o n) k) (select a (bvadd o k)))) :pattern ((at.%s (%s a o n) k)))))", sArr(sBV(64), es), id, fn, id, fn))
	r.declareOnce(fmt.Sprintf("(assert (forall ((a %s) (o (_ BitVec 64)) (n (_ BitVec 64))) (! (= (len.%s (%s a o n)) n) :pattern ((%s a o n)))))", sArr(sBV(64), es), id, fn, fn))
	// a store outside the window does not change the sequence
	r.declareOnce(fmt.Sprintf("(assert (forall ((a %s) (i (_ BitVec 64)) (v %s) (o (_ BitVec 64)) (n (_ BitVec 64))) (! (=> (or (bvslt i o) (bvsle (bvadd o n) i)) (= (%s (store a i v) o n) (%s a o n))) :pattern ((%s (store a i v) o n)))))", sArr(sBV(64), es), es, fn, fn, fn))
	return "(" + fn + " " + arr + " " + off + " " + n + ")"
}

func (r *Run) globalRef(name string) string {
	if g, ok := r.globals[name]; ok {
		return g
	}
	g := refLit(uint64(len(r.globals)+16) * refStride)
	r.globals[name] = g
	return g
}

func (r *Run) tagOf(t types.Type) string {
	k := types.TypeString(t, nil)
	id, ok := r.typeTag[k]
	if !ok {
		id = len(r.typeTag) + 1
		r.typeTag[k] = id
	}
	return bvLit(uint64(id), 16)
}

// zero value for a leaf
func zeroLeaf(l leaf) string {
	switch l.k {
	case kBool:
		return "false"
	case kBV:
		return bvLit(0, l.w)
	case kRef:
		return refLit(0)
	case kF64:
		return "(_ +zero 11 53)"
	case kStr:
		return "str!empty"
	}
	return "?"
}

// valueFromLeaves builds a Value of Go type t from leaf terms.
func valueFromLeaves(t types.Type, terms []string) Value {
	switch u := t.Underlying().(type) {
	case *types.Basic:
		k, w, s, _ := basicInfo(u)
		return &Sc{T: terms[0], K: k, W: w, Signed: s, Ty: t}
	case *types.Slice:
		return &SliceV{terms[0], terms[1], terms[2], terms[3], u.Elem()}
	case *types.Interface:
		return &IfaceV{Tag: terms[0], Ref: terms[1]}
	default:
		return &Sc{T: terms[0], K: kRef, W: 32, Ty: t}
	}
}

func leafTerms(v Value) ([]string, error) {
	switch x := v.(type) {
	case *Sc:
		return []string{x.T}, nil
	case *SliceV:
		return []string{x.Base, x.Off, x.Len, x.Cap}, nil
	case *IfaceV:
		return []string{x.Tag, x.Ref}, nil
	}
	return nil, fmt.Errorf("value %T has no leaf form", v)
}

// typeInv returns the standing type invariant of a value of type t.
func (r *Run) typeInv(st *State, v Value) string {
	switch x := v.(type) {
	case *Sc:
		if x.K == kRef {
			if x.Ty != nil {
				if _, ok := x.Ty.Underlying().(*types.Pointer); ok {
					return and(refLe("0", x.T), refLt(x.T, st.alloc))
				}
				if _, ok := x.Ty.Underlying().(*types.Map); ok {
					return and(refLe("0", x.T), refLt(x.T, st.alloc))
				}
			}
		}
	case *SliceV:
		return and(
			"(bvsle #x0000000000000000 "+x.Len+")",
			"(bvsle "+x.Len+" "+x.Cap+")",
			"(bvsle #x0000000000000000 "+x.Off+")",
			"(bvslt "+x.Off+" #x0001000000000000)",
			"(bvslt "+x.Cap+" #x0001000000000000)",
			refLe("0", x.Base), refLt(x.Base, st.alloc),
			implies(eq(x.Base, refLit(0)), eq(x.Cap, bvLit(0, 64))),
		)
	case *IfaceV:
		return and(refLe("0", x.Ref), refLt(x.Ref, st.alloc), implies(eq(x.Tag, bvLit(0, 16)), eq(x.Ref, refLit(0))))
	case *StructV:
		var cs []string
		for _, f := range x.F {
			cs = append(cs, r.typeInv(st, f))
		}
		return and(cs...)
	case *TupleV:
		var cs []string
		for _, f := range x.E {
			cs = append(cs, r.typeInv(st, f))
		}
		return and(cs...)
	}
	return "true"
}

// freshValue creates an unconstrained value of Go type t.
func (r *Run) freshValue(prefix string, t types.Type) (Value, error) {
	switch u := t.Underlying().(type) {
	case *types.Struct:
		sv := &StructV{Ty: t, F: make([]Value, u.NumFields())}
		for i := 0; i < u.NumFields(); i++ {
			v, err := r.freshValue(prefix+"."+u.Field(i).Name(), u.Field(i).Type())
			if err != nil {
				return nil, err
			}
			sv.F[i] = v
		}
		return sv, nil
	case *types.Tuple:
		tv := &TupleV{E: make([]Value, u.Len())}
		for i := 0; i < u.Len(); i++ {
			v, err := r.freshValue(fmt.Sprintf("%s.%d", prefix, i), u.At(i).Type())
			if err != nil {
				return nil, err
			}
			tv.E[i] = v
		}
		return tv, nil
	case *types.Array:
		return nil, r.unsupported("array value of type %s", t)
	}
	ls, err := leavesOf(t)
	if err != nil {
		return nil, r.unsupported("%v", err)
	}
	terms := make([]string, len(ls))
	for i, l := range ls {
		terms[i] = r.ctx.fresh(prefix+l.suffix, l.sort)
	}
	return valueFromLeaves(t, terms), nil
}

func (r *Run) zeroValue(t types.Type) (Value, error) {
	switch u := t.Underlying().(type) {
	case *types.Struct:
		sv := &StructV{Ty: t, F: make([]Value, u.NumFields())}
		for i := 0; i < u.NumFields(); i++ {
			v, err := r.zeroValue(u.Field(i).Type())
			if err != nil {
				return nil, err
			}
			sv.F[i] = v
		}
		return sv, nil
	case *types.Array:
		return nil, r.unsupported("array value of type %s", t)
	}
	ls, err := leavesOf(t)
	if err != nil {
		return nil, r.unsupported("%v", err)
	}
	terms := make([]string, len(ls))
	for i, l := range ls {
		terms[i] = zeroLeaf(l)
		if l.k == kStr {
			terms[i] = r.ctx.strConst("")
		}
	}
	return valueFromLeaves(t, terms), nil
}

// ---------------------------------------------------------------------------
// Heap access

func fieldComp(structT types.Type, f *types.Var) string {
	return "F." + namedKey(structT) + "." + f.Name()
}

func (r *Run) loadLeafs(st *State, comp string, ref string, t types.Type) (Value, error) {
	ls, err := leavesOf(t)
	if err != nil {
		return nil, r.unsupported("%v", err)
	}
	terms := make([]string, len(ls))
	for i, l := range ls {
		h := r.heap.get(st, comp+l.suffix, sArr(sRef, l.sort))
		terms[i] = r.ctx.selectOf(h, ref)
	}
	return valueFromLeaves(t, terms), nil
}

func (r *Run) storeLeafs(st *State, comp string, ref string, t types.Type, v Value) error {
	ls, err := leavesOf(t)
	if err != nil {
		return r.unsupported("%v", err)
	}
	terms, err := leafTerms(v)
	if err != nil {
		return r.unsupported("store of %T into %s", v, comp)
	}
	if len(terms) != len(ls) {
		return r.unsupported("store shape mismatch into %s (%T for %s)", comp, v, t)
	}
	for i, l := range ls {
		name := comp + l.suffix
		srt := sArr(sRef, l.sort)
		h := r.heap.get(st, name, srt)
		r.heap.set(st, name, srt, sto(h, ref, terms[i]), ref)
	}
	return nil
}

func (r *Run) loadElem(st *State, elemT types.Type, base, idx string) (Value, error) {
	if isStruct(elemT) {
		return nil, r.unsupported("slice of struct values %s", elemT)
	}
	ls, err := leavesOf(elemT)
	if err != nil {
		return nil, r.unsupported("%v", err)
	}
	terms := make([]string, len(ls))
	for i, l := range ls {
		h := r.heap.get(st, elemComp(elemT)+l.suffix, sArr(sRef, sArr(sBV(64), l.sort)))
		terms[i] = sel(sel(h, base), idx)
	}
	return valueFromLeaves(elemT, terms), nil
}

func (r *Run) storeElem(st *State, elemT types.Type, base, idx string, v Value) error {
	ls, err := leavesOf(elemT)
	if err != nil {
		return r.unsupported("%v", err)
	}
	terms, err := leafTerms(v)
	if err != nil || len(terms) != len(ls) {
		return r.unsupported("store of %T into element of %s", v, elemT)
	}
	for i, l := range ls {
		name := elemComp(elemT) + l.suffix
		srt := sArr(sRef, sArr(sBV(64), l.sort))
		h := r.heap.get(st, name, srt)
		r.heap.set(st, name, srt, sto(h, base, sto(sel(h, base), idx, terms[i])), base)
	}
	return nil
}

// loadStruct reads a whole struct object.
func (r *Run) loadStruct(st *State, ref string, t types.Type) (Value, error) {
	u := t.Underlying().(*types.Struct)
	sv := &StructV{Ty: t, F: make([]Value, u.NumFields())}
	for i := 0; i < u.NumFields(); i++ {
		f := u.Field(i)
		if isStruct(f.Type()) {
			v, err := r.loadStruct(st, r.fldRefT(t, f, ref), f.Type())
			if err != nil {
				return nil, err
			}
			sv.F[i] = v
			continue
		}
		if _, ok := f.Type().Underlying().(*types.Array); ok {
			return nil, r.unsupported("array field %s.%s", t, f.Name())
		}
		v, err := r.loadLeafs(st, fieldComp(t, f), ref, f.Type())
		if err != nil {
			return nil, err
		}
		sv.F[i] = v
	}
	return sv, nil
}

func (r *Run) storeStruct(st *State, ref string, t types.Type, v Value) error {
	sv, ok := v.(*StructV)
	if !ok {
		return r.unsupported("struct store of %T", v)
	}
	u := t.Underlying().(*types.Struct)
	for i := 0; i < u.NumFields(); i++ {
		f := u.Field(i)
		if isStruct(f.Type()) {
			if err := r.storeStruct(st, r.fldRefT(t, f, ref), f.Type(), sv.F[i]); err != nil {
				return err
			}
			continue
		}
		if _, ok := f.Type().Underlying().(*types.Array); ok {
			continue
		}
		if err := r.storeLeafs(st, fieldComp(t, f), ref, f.Type(), sv.F[i]); err != nil {
			return err
		}
	}
	return nil
}

func (r *Run) zeroStruct(st *State, ref string, t types.Type) error {
	z, err := r.zeroValue(t)
	if err != nil {
		return err
	}
	return r.storeStruct(st, ref, t, z)
}

func (r *Run) load(st *State, a *AddrV) (Value, error) {
	switch a.Kind {
	case "field", "cell":
		return r.loadLeafs(st, a.Comp, a.Ref, a.Ty)
	case "elem":
		return r.loadElem(st, a.Ty, a.Ref, a.Idx)
	}
	return nil, r.unsupported("load through %s pointer", a.Kind)
}

func (r *Run) store(st *State, a *AddrV, v Value) error {
	switch a.Kind {
	case "field", "cell":
		return r.storeLeafs(st, a.Comp, a.Ref, a.Ty, v)
	case "elem":
		return r.storeElem(st, a.Ty, a.Ref, a.Idx, v)
	}
	return r.unsupported("store through %s pointer", a.Kind)
}

// ---------------------------------------------------------------------------
// Constants

func (r *Run) constValue(c *ssa.Const) (Value, error) {
	t := c.Type()
	if c.Value == nil {
		// zero value / nil
		if tt, ok := t.Underlying().(*types.Tuple); ok && tt.Len() == 0 {
			return &TupleV{}, nil
		}
		v, err := r.zeroValue(t)
		if err != nil {
			return nil, err
		}
		if s, ok := v.(*Sc); ok {
			s.Ty = t
		}
		return v, nil
	}
	b, ok := t.Underlying().(*types.Basic)
	if !ok {
		return nil, r.unsupported("constant of type %s", t)
	}
	k, w, s, ok := basicInfo(b)
	if !ok {
		return nil, r.unsupported("constant of type %s", t)
	}
	switch k {
	case kBool:
		if constant.BoolVal(c.Value) {
			return &Sc{T: "true", K: kBool, Ty: t}, nil
		}
		return &Sc{T: "false", K: kBool, Ty: t}, nil
	case kBV:
		var u uint64
		if s {
			u = uint64(c.Int64())
		} else {
			u = c.Uint64()
		}
		return &Sc{T: bvLit(u, w), K: kBV, W: w, Signed: s, Ty: t}, nil
	case kF64:
		f := c.Float64()
		return &Sc{T: f64Lit(f), K: kF64, W: 64, Signed: true, Ty: t}, nil
	case kStr:
		return &Sc{T: r.ctx.strConst(constant.StringVal(c.Value)), K: kStr, Ty: t}, nil
	}
	return nil, r.unsupported("constant kind")
}

func f64Lit(f float64) string {
	bits := math.Float64bits(f)
	sign := bits >> 63
	exp := (bits >> 52) & 0x7ff
	man := bits & ((1 << 52) - 1)
	return fmt.Sprintf("(fp #b%b #b%011b #b%052b)", sign, exp, man)
}
