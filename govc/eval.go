package main

import (
	"regexp"
	"fmt"
	"go/constant"
	"go/token"
	"go/types"
	"math"
	"strconv"
	"strings"

	"golang.org/x/tools/go/ssa"
)

// ---------------------------------------------------------------------------
// Contract expression evaluation

type evalEnv struct {
	fr             *Frame
	st             *State
	old            *State
	names          map[string]Value
	lets           map[string]Expr
	post           *postState // when evaluating a callee postcondition
	callee         bool       // names refer to a callee's parameters; do not look up caller locals
	inOld          bool
	spec           map[string]Value // spec-function parameters (pure evaluation)
	preNames       map[string]Value
	letCache       map[string]Value
	qdepth         int
	loopEntry      *State // state on entry to the loop whose invariant is being evaluated
	loopEntryNames map[string]Value
	inEntry        bool
	inPre          bool   // inside pre(): heap reads go to the loop-head state
	loopHead       *State // state at the head of the current iteration (loop assert clauses)
	depth          int
}

// Extra value kinds used only in specifications
type UInt struct { // untyped integer constant
	V   uint64
	Neg bool
}
type UNil struct{}
type SeqV struct { // abstract sequence: array term + offset + length
	Arr, Off, Len string
	ElemSort      string
	ElemK         kind
	ElemW         int
	ElemSigned    bool
	ElemTy        types.Type
}

func (fr *Frame) evalBool(e Expr, st *State, names map[string]Value) (string, error) {
	env := &evalEnv{fr: fr, st: st, old: fr.entry, names: names}
	// inside a loop body, atentry() refers to the innermost enclosing loop
	if fr.cur != nil && fr.depth == 0 {
		var best *loopInfo
		for _, li := range fr.loops {
			if li.blocks[fr.cur] && (best == nil || len(li.blocks) < len(best.blocks)) {
				best = li
			}
		}
		if best != nil {
			if lr := loopRuns[best]; lr != nil && lr.entry != nil {
				env.loopEntry = lr.entry
				env.loopEntryNames = fr.phiNames(best, lr.entryPhi, intV(bvLit(0, 64)))
				for k, v := range names {
					env.loopEntryNames[k] = v
				}
			} else if fr.run.dry > 0 {
				// write-set discovery pass: the loop has not been entered yet; nothing is recorded
				env.loopEntry = st
			}
		}
	}
	return fr.evalBoolEnv(e, env)
}

func (fr *Frame) evalBoolEnv(e Expr, env *evalEnv) (string, error) {
	v, err := fr.evalExpr(e, env)
	if err != nil {
		return "", err
	}
	s, ok := v.(*Sc)
	if !ok || s.K != kBool {
		return "", fmt.Errorf("expression %s is not boolean", exprString(e))
	}
	return s.T, nil
}

func (env *evalEnv) state() *State {
	if env.inOld && env.old != nil {
		return env.old
	}
	if env.inEntry && env.loopEntry != nil {
		return env.loopEntry
	}
	if env.inPre && env.loopHead != nil {
		return env.loopHead
	}
	return env.st
}

// readComp reads the current version of a heap component in the evaluation state.
func (env *evalEnv) readComp(name, sort string) string {
	r := env.fr.run
	if env.post != nil && !env.inOld {
		r.heap.declare(name, sort)
		env.post.touch(name)
	}
	return r.heap.get(env.state(), name, sort)
}

// readAt reads component name at reference ref.
func (env *evalEnv) readAt(name, sort, ref string) string {
	if env.post != nil && !env.inOld && !env.inEntry {
		return env.post.read(name, sort, ref)
	}
	return sel(env.fr.run.heap.get(env.state(), name, sort), ref)
}

func (fr *Frame) evalExpr(e Expr, env *evalEnv) (Value, error) {
	r := fr.run
	switch x := e.(type) {
	case *EInt:
		return &UInt{x.V, x.Neg}, nil
	case *EBool:
		if x.V {
			return boolV("true"), nil
		}
		return boolV("false"), nil
	case *ENil:
		return &UNil{}, nil
	case *EFloat:
		f, err := strconv.ParseFloat(x.Text, 64)
		if err != nil {
			return nil, err
		}
		return &Sc{T: f64Lit(f), K: kF64, W: 64, Signed: true}, nil
	case *EStr:
		return &Sc{T: r.ctx.strConst(x.S), K: kStr}, nil
	case *EIdent:
		return fr.evalIdent(x.Name, env)
	case *EUn:
		v, err := fr.evalExpr(x.X, env)
		if err != nil {
			return nil, err
		}
		switch x.Op {
		case "!":
			s, ok := v.(*Sc)
			if !ok || s.K != kBool {
				return nil, fmt.Errorf("! on non-bool")
			}
			return boolV(not(s.T)), nil
		case "-":
			if u, ok := v.(*UInt); ok {
				return &UInt{u.V, !u.Neg}, nil
			}
			s := v.(*Sc)
			return bv("(bvneg "+s.T+")", s.W, s.Signed), nil
		case "^":
			s, ok := v.(*Sc)
			if !ok {
				return nil, fmt.Errorf("^ on untyped")
			}
			return bv("(bvnot "+s.T+")", s.W, s.Signed), nil
		}
	case *EBin:
		return fr.evalBin(x, env)
	case *ESel:
		v, err := fr.evalExpr(x.X, env)
		if err != nil {
			return nil, err
		}
		return fr.selectField(v, x.Name, env)
	case *EIndex:
		v, err := fr.evalExpr(x.X, env)
		if err != nil {
			return nil, err
		}
		iv, err := fr.evalExpr(x.I, env)
		if err != nil {
			return nil, err
		}
		return fr.indexValue(v, iv, env)
	case *ESlice:
		v, err := fr.evalExpr(x.X, env)
		if err != nil {
			return nil, err
		}
		var lo, hi string
		if x.Lo != nil {
			l, err := fr.evalExpr(x.Lo, env)
			if err != nil {
				return nil, err
			}
			lo, err = asInt64(l)
			if err != nil {
				return nil, err
			}
		} else {
			lo = bvLit(0, 64)
		}
		switch s := v.(type) {
		case *SliceV:
			if x.Hi != nil {
				h, err := fr.evalExpr(x.Hi, env)
				if err != nil {
					return nil, err
				}
				hi, err = asInt64(h)
				if err != nil {
					return nil, err
				}
			} else {
				hi = s.Len
			}
			return &SliceV{Base: s.Base, Off: "(bvadd " + s.Off + " " + lo + ")", Len: "(bvsub " + hi + " " + lo + ")", Cap: "(bvsub " + s.Cap + " " + lo + ")", Elem: s.Elem}, nil
		case *SeqV:
			if x.Hi != nil {
				h, err := fr.evalExpr(x.Hi, env)
				if err != nil {
					return nil, err
				}
				hi, err = asInt64(h)
				if err != nil {
					return nil, err
				}
			} else {
				hi = s.Len
			}
			c := *s
			c.Off = "(bvadd " + s.Off + " " + lo + ")"
			c.Len = "(bvsub " + hi + " " + lo + ")"
			return &c, nil
		case *Sc:
			// a ghost byte array (sinkData): g[lo:hi] is the sequence of its bytes lo..hi-1
			if s.K == kArr && s.Sort == sArr(sBV(64), sBV(8)) && x.Hi != nil {
				h, err := fr.evalExpr(x.Hi, env)
				if err != nil {
					return nil, err
				}
				hi, err = asInt64(h)
				if err != nil {
					return nil, err
				}
				return &SeqV{Arr: s.T, Off: lo, Len: "(bvsub " + hi + " " + lo + ")", ElemSort: sBV(8), ElemK: kBV, ElemW: 8}, nil
			}
		}
		return nil, fmt.Errorf("slice of %T", v)
	case *ECall:
		return fr.evalCall(x, env)
	}
	return nil, fmt.Errorf("cannot evaluate %s", exprString(e))
}

func asInt64(v Value) (string, error) {
	switch x := v.(type) {
	case *UInt:
		if x.Neg {
			return bvLit(uint64(-int64(x.V)), 64), nil
		}
		return bvLit(x.V, 64), nil
	case *Sc:
		if x.K == kBV {
			return toInt64(x), nil
		}
	}
	return "", fmt.Errorf("expected integer, got %T", v)
}

func (fr *Frame) evalIdent(name string, env *evalEnv) (Value, error) {
	r := fr.run
	if env.spec != nil {
		if v, ok := env.spec[name]; ok {
			return v, nil
		}
	}
	if env.inOld && !env.callee && env.spec == nil && fr.fn != nil {
		for _, p := range fr.fn.Params {
			if p.Name() == name {
				if v, ok := fr.vals[p]; ok {
					return v, nil
				}
			}
		}
	}
	if v, ok := env.names[name]; ok && v != nil {
		return v, nil
	}
	if env.lets != nil {
		if le, ok := env.lets[name]; ok {
			return fr.evalLet(name, le, env)
		}
	}
	if env.spec == nil && !env.callee {
		if fr.lets != nil {
			if le, ok := fr.lets[name]; ok {
				return fr.evalLet(name, le, env)
			}
		}
		// parameters
		for _, p := range fr.fn.Params {
			if p.Name() == name {
				if v, ok := fr.vals[p]; ok {
					return v, nil
				}
			}
		}
		for _, p := range fr.fn.FreeVars {
			if p.Name() == name {
				if v, ok := fr.vals[p]; ok {
					// free variables are addresses of captured variables
					if a, ok := v.(*AddrV); ok {
						return r.load(env.state(), a)
					}
					return v, nil
				}
			}
		}
		// address-taken locals
		if av, ok := fr.localAddr[name]; ok {
			if v, ok := fr.vals[av]; ok {
				if a, ok := v.(*AddrV); ok {
					return r.load(env.state(), a)
				}
				if s, ok := v.(*Sc); ok && s.K == kRef {
					return s, nil
				}
			}
		}
		// locals: latest dominating definition
		if cands, ok := fr.locals[name]; ok || fr.hasPhiNamed(name) {
			var best ssa.Value
			bestKey := -1
			for ci, c := range cands {
				if _, ok := fr.vals[c]; !ok {
					if _, isC := c.(*ssa.Const); !isC {
						continue
					}
				}
				// the name denotes this value at the point of the reference that recorded it (a
				// definition or a use): that point, not the value's own definition, must dominate
				var in ssa.Instruction
				if ats := fr.localAt[name]; ci < len(ats) && ats[ci] != nil {
					in = ats[ci]
				} else if x, ok := c.(ssa.Instruction); ok {
					in = x
				}
				key := 0
				if in != nil {
					b := in.Block()
					if fr.cur != nil && !b.Dominates(fr.cur) {
						continue
					}
					pos := 0
					for i, x := range b.Instrs {
						if x == in {
							pos = i
						}
					}
					key = fr.rpoIdx[b]*100000 + pos + 1
				}
				if key > bestKey {
					best, bestKey = c, key
				}
			}
			// phis carrying the variable at joins that dominate the current point
			if fr.cur != nil {
				for _, b := range fr.fn.Blocks {
					if !b.Dominates(fr.cur) {
						continue
					}
					for i, in := range b.Instrs {
						phi, ok := in.(*ssa.Phi)
						if !ok {
							break
						}
						if phi.Comment != name {
							continue
						}
						if _, ok := fr.vals[phi]; !ok {
							continue
						}
						key := fr.rpoIdx[b]*100000 + i + 1
						if key > bestKey {
							best, bestKey = phi, key
						}
					}
				}
			}
			if best != nil {
				return fr.value(best)
			}
		}
	}
	// package-level constants and variables
	if m := r.eng.pkg.Members[name]; m != nil {
		switch g := m.(type) {
		case *ssa.NamedConst:
			return r.constValue(g.Value)
		case *ssa.Global:
			if v, ok := r.constGlobal(env.state(), g); ok {
				return v, nil
			}
			a, err := r.globalAddr(g)
			if err != nil {
				return nil, err
			}
			if av, ok := a.(*AddrV); ok && av.Kind != "arr" {
				return r.load(env.state(), av)
			}
			return a, nil
		}
	}
	// qualified constants such as io.EOF are written io_EOF
	if i := strings.Index(name, "_"); i > 0 {
		for _, p := range r.eng.prog.AllPackages() {
			if p.Pkg.Name() == name[:i] {
				if g, ok := p.Members[name[i+1:]].(*ssa.Global); ok {
					if v, ok := r.constGlobal(env.state(), g); ok {
						return v, nil
					}
				}
			}
		}
	}
	return nil, fmt.Errorf("unknown identifier %q", name)
}

func (fr *Frame) hasPhiNamed(name string) bool {
	if fr.fn == nil {
		return false
	}
	for _, b := range fr.fn.Blocks {
		for _, in := range b.Instrs {
			phi, ok := in.(*ssa.Phi)
			if !ok {
				break
			}
			if phi.Comment == name {
				return true
			}
		}
	}
	return false
}

// evalLet evaluates an abbreviation once per evaluation context and names the result,
// so that repeated uses share one SMT definition.
func (fr *Frame) evalLet(name string, le Expr, env *evalEnv) (Value, error) {
	if env.depth > 40 {
		return nil, fmt.Errorf("let recursion at %s", name)
	}
	key := name
	if env.inOld {
		key += "|old"
	} else if env.inEntry {
		key += "|entry"
	} else if env.inPre {
		key += "|pre"
	}
	if env.qdepth == 0 && env.letCache != nil {
		if v, ok := env.letCache[key]; ok {
			return v, nil
		}
	}
	env.depth++
	v, err := fr.evalExpr(le, env)
	env.depth--
	if err != nil {
		return nil, err
	}
	if env.qdepth == 0 {
		if _, isU := v.(*UInt); !isU {
			v = fr.nameValue("let."+name, v)
		}
		if env.letCache == nil {
			env.letCache = map[string]Value{}
		}
		env.letCache[key] = v
	}
	return v, nil
}

func (fr *Frame) selectField(v Value, name string, env *evalEnv) (Value, error) {
	r := fr.run
	switch x := v.(type) {
	case *StructV:
		u := x.Ty.Underlying().(*types.Struct)
		for i := 0; i < u.NumFields(); i++ {
			if u.Field(i).Name() == name {
				return x.F[i], nil
			}
		}
		return nil, fmt.Errorf("no field %s in %s", name, x.Ty)
	case *Sc:
		if x.K != kRef || x.Ty == nil {
			return nil, fmt.Errorf("field %s of untyped/non-pointer value", name)
		}
		pt, ok := x.Ty.Underlying().(*types.Pointer)
		if !ok {
			return nil, fmt.Errorf("field %s of non-pointer %s", name, x.Ty)
		}
		st := pt.Elem()
		u, ok := st.Underlying().(*types.Struct)
		if !ok {
			return nil, fmt.Errorf("field %s of pointer to non-struct %s", name, st)
		}
		for i := 0; i < u.NumFields(); i++ {
			f := u.Field(i)
			if f.Name() != name {
				continue
			}
			if isStruct(f.Type()) {
				return &Sc{T: r.fldRefT(st, f, x.T), K: kRef, W: 32, Ty: types.NewPointer(f.Type())}, nil
			}
			ls, err := leavesOf(f.Type())
			if err != nil {
				return nil, err
			}
			terms := make([]string, len(ls))
			for j, l := range ls {
				terms[j] = env.readAt(fieldComp(st, f)+l.suffix, sArr(sRef, l.sort), x.T)
			}
			val := valueFromLeaves(f.Type(), terms)
			return val, nil
		}
		return nil, fmt.Errorf("no field %s in %s", name, st)
	}
	return nil, fmt.Errorf("field %s of %T", name, v)
}

func (fr *Frame) indexValue(v, iv Value, env *evalEnv) (Value, error) {
	r := fr.run
	idx, err := asInt64(iv)
	switch x := v.(type) {
	case *SliceV:
		if err != nil {
			return nil, err
		}
		if isStruct(x.Elem) {
			return nil, fmt.Errorf("index of struct slice")
		}
		ls, err := leavesOf(x.Elem)
		if err != nil {
			return nil, err
		}
		terms := make([]string, len(ls))
		for j, l := range ls {
			arr := env.readAt(elemComp(x.Elem)+l.suffix, sArr(sRef, sArr(sBV(64), l.sort)), x.Base)
			if env.qdepth > 0 && !mentionsBound(arr) {
				arr = r.ctx.defineConst("qarr", sArr(sBV(64), l.sort), arr)
			}
			terms[j] = sel(arr, "(bvadd "+x.Off+" "+idx+")")
		}
		return valueFromLeaves(x.Elem, terms), nil
	case *SeqV:
		if err != nil {
			return nil, err
		}
		arr := x.Arr
		if env.qdepth > 0 && env.spec == nil && !mentionsBound(arr) {
			arr = r.ctx.defineConst("qarr", sArr(sBV(64), x.ElemSort), arr)
		}
		t := sel(arr, "(bvadd "+x.Off+" "+idx+")")
		return &Sc{T: t, K: x.ElemK, W: x.ElemW, Signed: x.ElemSigned, Ty: x.ElemTy}, nil
	case *AddrV:
		if x.Kind == "arr" {
			if err != nil {
				return nil, err
			}
			et := x.Ty.Underlying().(*types.Array).Elem()
			ls, err := leavesOf(et)
			if err != nil {
				return nil, err
			}
			return valueFromLeaves(et, []string{sel(env.readAt(elemComp(et)+ls[0].suffix, sArr(sRef, sArr(sBV(64), ls[0].sort)), x.Ref), idx)}), nil
		}
	case *Sc:
		if x.K == kArr {
			// ghost array indexed by its declared index sort
			is, es := arrSorts(x.Sort)
			var it string
			if s, ok := iv.(*Sc); ok && s.sort() == is {
				it = s.T
			} else if is == sBV(64) {
				it = idx
			} else if u, ok := iv.(*UInt); ok {
				w := sortWidth(is)
				it = bvLit(u.V, w)
			} else {
				return nil, fmt.Errorf("ghost array index sort mismatch")
			}
			at := x.T
			if env.qdepth > 0 && env.spec == nil && !mentionsBound(at) {
				at = r.ctx.defineConst("qarr", x.Sort, at)
			}
			return scalarOfSort(sel(at, it), es), nil
		}
		if x.K == kRef && x.Ty != nil {
			if mt, ok := x.Ty.Underlying().(*types.Map); ok {
				ks, ok := iv.(*Sc)
				var kt string
				if ok {
					kt = ks.T
				} else if u, ok := iv.(*UInt); ok {
					kl, _ := leavesOf(mt.Key())
					kt = bvLit(u.V, kl[0].w)
				}
				// map read in a specification
				has, hs, _, err := mapComps(mt)
				if err != nil {
					return nil, err
				}
				vc, vl, ksrt, err := r.mapValComp(mt)
				if err != nil {
					return nil, err
				}
				present := and(not(eq(x.T, refLit(0))), sel(env.readAt(has, hs, x.T), kt))
				terms := make([]string, len(vl))
				for i, l := range vl {
					terms[i] = ite(present, sel(env.readAt(vc+l.suffix, sArr(sRef, sArr(ksrt, l.sort)), x.T), kt), zeroLeaf(l))
				}
				val := valueFromLeaves(mt.Elem(), terms)
				if s, ok := val.(*Sc); ok {
					s.Ty = mt.Elem()
				}
				return val, nil
			}
		}
	}
	return nil, fmt.Errorf("index of %T", v)
}

// selectPatterns proposes E-matching triggers for a quantified body: every array read
// whose index mentions the bound variable and whose array does not.
func selectPatterns(body, bv string) string {
	seen := map[string]bool{}
	var pats []string
	for i := 0; i+8 <= len(body); i++ {
		if body[i:i+8] != "(select " {
			continue
		}
		depth := 0
		j := i
		for ; j < len(body); j++ {
			if body[j] == '(' {
				depth++
			} else if body[j] == ')' {
				depth--
				if depth == 0 {
					break
				}
			}
		}
		term := body[i : j+1]
		parts := splitSexprArgs(term)
		if len(parts) != 3 {
			continue
		}
		hasBV := func(s string) bool {
			for _, t := range tokens(s) {
				if t == bv {
					return true
				}
			}
			return false
		}
		if hasBV(parts[2]) && isAtom(parts[1]) && !seen[term] && !strings.Contains(parts[2], "(ite") && !strings.Contains(parts[2], "(select") {
			seen[term] = true
			pats = append(pats, ":pattern ("+term+")")
		}
	}
	if len(pats) > 4 {
		pats = pats[:4]
	}
	return strings.Join(pats, " ")
}

func arrSorts(s string) (string, string) {
	// "(Array I E)"
	inner := strings.TrimSuffix(strings.TrimPrefix(s, "(Array "), ")")
	depth := 0
	for i := 0; i < len(inner); i++ {
		switch inner[i] {
		case '(':
			depth++
		case ')':
			depth--
		case ' ':
			if depth == 0 {
				return inner[:i], inner[i+1:]
			}
		}
	}
	return inner, ""
}

func sortWidth(s string) int {
	var w int
	fmt.Sscanf(s, "(_ BitVec %d)", &w)
	return w
}

func scalarOfSort(t, sort string) Value {
	switch {
	case sort == sBool:
		return boolV(t)
	case sort == sRef:
		return &Sc{T: t, K: kRef, W: 32}
	case strings.HasPrefix(sort, "(_ BitVec"):
		return bv(t, sortWidth(sort), false)
	case strings.HasPrefix(sort, "(Array"):
		return &Sc{T: t, K: kArr, Sort: sort}
	case sort == sF64:
		return &Sc{T: t, K: kF64, W: 64, Signed: true}
	}
	return &Sc{T: t, K: kStr}
}

// coerce untyped constants to the type of the other operand
func coerce(a, b Value) (Value, Value, error) {
	ua, aok := a.(*UInt)
	ub, bok := b.(*UInt)
	mk := func(u *UInt, w int, signed bool) Value {
		v := u.V
		if u.Neg {
			v = uint64(-int64(u.V))
		}
		return bv(bvLit(v, w), w, signed)
	}
	switch {
	case aok && bok:
		return mk(ua, 64, true), mk(ub, 64, true), nil
	case aok:
		if s, ok := b.(*Sc); ok && s.K == kBV {
			return mk(ua, s.W, s.Signed), b, nil
		}
		if s, ok := b.(*Sc); ok && s.K == kRef {
			return &Sc{T: refLit(ua.V), K: kRef, W: 32}, s, nil
		}
		if s, ok := b.(*Sc); ok && s.K == kF64 {
			f := float64(ua.V)
			if ua.Neg {
				f = -f
			}
			return &Sc{T: f64Lit(f), K: kF64, W: 64, Signed: true}, b, nil
		}
		return nil, nil, fmt.Errorf("cannot coerce constant to %T", b)
	case bok:
		y, x, err := coerce(b, a)
		return x, y, err
	}
	return a, b, nil
}

func (fr *Frame) evalBin(x *EBin, env *evalEnv) (Value, error) {
	switch x.Op {
	case "&&", "||", "==>", "<==>":
		a, err := fr.evalBoolEnv(x.X, env)
		if err != nil {
			return nil, err
		}
		b, err := fr.evalBoolEnv(x.Y, env)
		if err != nil {
			return nil, err
		}
		switch x.Op {
		case "&&":
			return boolV(and(a, b)), nil
		case "||":
			return boolV(or(a, b)), nil
		case "==>":
			return boolV(implies(a, b)), nil
		default:
			return boolV(eq(a, b)), nil
		}
	}
	a, err := fr.evalExpr(x.X, env)
	if err != nil {
		return nil, err
	}
	b, err := fr.evalExpr(x.Y, env)
	if err != nil {
		return nil, err
	}
	// nil comparisons
	if _, ok := b.(*UNil); ok {
		a, b = b, a
	}
	if _, ok := a.(*UNil); ok {
		var e string
		switch y := b.(type) {
		case *Sc:
			e = eq(y.T, refLit(0))
		case *IfaceV:
			e = and(eq(y.Tag, bvLit(0, 16)), eq(y.Ref, refLit(0)))
		case *SliceV:
			e = eq(y.Base, refLit(0))
		case *UNil:
			e = "true"
		default:
			return nil, fmt.Errorf("nil compared with %T", b)
		}
		switch x.Op {
		case "==":
			return boolV(e), nil
		case "!=":
			return boolV(not(e)), nil
		}
		return nil, fmt.Errorf("bad operator %s on nil", x.Op)
	}
	// shifts: count is independent
	if x.Op == "<<" || x.Op == ">>" {
		as, ok := a.(*Sc)
		if !ok {
			if u, ok2 := a.(*UInt); ok2 {
				as = bv(bvLit(u.V, 64), 64, true)
			} else {
				return nil, fmt.Errorf("shift of %T", a)
			}
		}
		var cnt *Sc
		switch c := b.(type) {
		case *UInt:
			cnt = bv(bvLit(c.V, as.W), as.W, false)
		case *Sc:
			cnt = c
		default:
			return nil, fmt.Errorf("shift count %T", b)
		}
		c := shiftCount(cnt, as.W)
		switch {
		case x.Op == "<<":
			return bv("(bvshl "+as.T+" "+c+")", as.W, as.Signed), nil
		case as.Signed:
			return bv("(bvashr "+as.T+" "+c+")", as.W, as.Signed), nil
		default:
			return bv("(bvlshr "+as.T+" "+c+")", as.W, as.Signed), nil
		}
	}
	a, b, err = coerce(a, b)
	if err != nil {
		return nil, fmt.Errorf("%v in %s", err, exprString(x))
	}
	tok, ok := opToken[x.Op]
	if !ok {
		return nil, fmt.Errorf("unknown operator %s", x.Op)
	}
	if sa, ok := a.(*Sc); ok {
		if sb, ok := b.(*Sc); ok && sa.K == kBV && sb.K == kBV && sa.W != sb.W {
			return nil, fmt.Errorf("width mismatch %d vs %d in %s", sa.W, sb.W, exprString(x))
		}
		if sb, ok := b.(*Sc); ok && sa.K == kBV && sb.K == kBV && sa.Signed != sb.Signed {
			switch x.Op {
			case "<", "<=", ">", ">=", "/", "%":
				return nil, fmt.Errorf("signedness mismatch in %s", exprString(x))
			}
		}
	}
	// slice / interface structural equality
	if sla, ok := a.(*SliceV); ok {
		if slb, ok := b.(*SliceV); ok && (x.Op == "==" || x.Op == "!=") {
			e, _ := valuesEqual(sla, slb)
			if x.Op == "!=" {
				e = not(e)
			}
			return boolV(e), nil
		}
	}
	// struct equality
	if sva, ok := a.(*StructV); ok {
		if svb, ok := b.(*StructV); ok && (x.Op == "==" || x.Op == "!=") {
			e, err := valuesEqual(sva, svb)
			if err != nil {
				return nil, err
			}
			if x.Op == "!=" {
				e = not(e)
			}
			return boolV(e), nil
		}
	}
	v, err := fr.binop(env.state(), tok, a, b, nil)
	if err != nil {
		return nil, fmt.Errorf("%v in %s", err, exprString(x))
	}
	return v, nil
}

func valuesEqual(a, b Value) (string, error) {
	switch x := a.(type) {
	case *Sc:
		y, ok := b.(*Sc)
		if !ok {
			return "", fmt.Errorf("shape mismatch")
		}
		if x.K == kF64 {
			return "(= " + x.T + " " + y.T + ")", nil
		}
		return eq(x.T, y.T), nil
	case *IfaceV:
		y := b.(*IfaceV)
		return and(eq(x.Tag, y.Tag), eq(x.Ref, y.Ref)), nil
	case *SliceV:
		y := b.(*SliceV)
		return and(eq(x.Base, y.Base), eq(x.Off, y.Off), eq(x.Len, y.Len), eq(x.Cap, y.Cap)), nil
	case *StructV:
		y, ok := b.(*StructV)
		if !ok || len(x.F) != len(y.F) {
			return "", fmt.Errorf("shape mismatch")
		}
		var cs []string
		for i := range x.F {
			c, err := valuesEqual(x.F[i], y.F[i])
			if err != nil {
				return "", err
			}
			cs = append(cs, c)
		}
		return and(cs...), nil
	}
	return "", fmt.Errorf("cannot compare %T", a)
}

func (fr *Frame) evalCall(x *ECall, env *evalEnv) (Value, error) {
	r := fr.run
	arg := func(i int) (Value, error) {
		if i >= len(x.Args) {
			return nil, fmt.Errorf("%s: missing argument %d", x.Fn, i)
		}
		return fr.evalExpr(x.Args[i], env)
	}
	switch x.Fn {
	case "old":
		if env.old == nil {
			return nil, fmt.Errorf("old() not available here")
		}
		save := env.inOld
		env.inOld = true
		// old() also freezes loop/return overrides of names? names stay as they are.
		v, err := arg(0)
		env.inOld = save
		return v, err
	case "atentry":
		// atentry(e): e evaluated in the state in which the enclosing loop was entered
		if env.loopEntry == nil {
			return nil, fmt.Errorf("atentry() is only available in loop clauses")
		}
		saveEntry, saveNames := env.inEntry, env.names
		env.inEntry = true
		if env.loopEntryNames != nil {
			env.names = env.loopEntryNames
		}
		v, err := arg(0)
		env.inEntry, env.names = saveEntry, saveNames
		return v, err
	case "pre":
		// pre(x): value of a loop-carried variable at the loop head (in loop assert clauses)
		if env.preNames == nil {
			return nil, fmt.Errorf("pre() is only available in loop assert clauses")
		}
		save, savePre := env.names, env.inPre
		env.names = env.preNames
		env.inPre = true
		v, err := arg(0)
		env.names, env.inPre = save, savePre
		return v, err
	case "bstore":
		// bstore(g, j, v): ghost byte array g with byte j replaced by v
		g, err := arg(0)
		if err != nil {
			return nil, err
		}
		gs, ok := g.(*Sc)
		if !ok || gs.K != kArr || gs.Sort != sArr(sBV(64), sBV(8)) {
			return nil, fmt.Errorf("bstore of %T", g)
		}
		jv, err := arg(1)
		if err != nil {
			return nil, err
		}
		jt, err := asInt64(jv)
		if err != nil {
			return nil, err
		}
		vv, err := arg(2)
		if err != nil {
			return nil, err
		}
		vs, ok := vv.(*Sc)
		if !ok || vs.K != kBV || vs.W != 8 {
			return nil, fmt.Errorf("bstore value must be a byte")
		}
		return &Sc{T: sto(gs.T, jt, vs.T), K: kArr, Sort: gs.Sort}, nil
	case "bseq":
		// bseq(g, off, n): the n bytes of ghost byte array g from position off
		g, err := arg(0)
		if err != nil {
			return nil, err
		}
		gs, ok := g.(*Sc)
		if !ok || gs.K != kArr || gs.Sort != sArr(sBV(64), sBV(8)) {
			return nil, fmt.Errorf("seq of %T", g)
		}
		o, err := arg(1)
		if err != nil {
			return nil, err
		}
		n, err := arg(2)
		if err != nil {
			return nil, err
		}
		ot, err := asInt64(o)
		if err != nil {
			return nil, err
		}
		nt, err := asInt64(n)
		if err != nil {
			return nil, err
		}
		return &SeqV{Arr: gs.T, Off: ot, Len: nt, ElemSort: sBV(8), ElemK: kBV, ElemW: 8}, nil
	case "len", "cap":
		v, err := arg(0)
		if err != nil {
			return nil, err
		}
		switch s := v.(type) {
		case *SliceV:
			if x.Fn == "len" {
				return intV(s.Len), nil
			}
			return intV(s.Cap), nil
		case *SeqV:
			return intV(s.Len), nil
		case *Sc:
			if s.K == kRef && s.Ty != nil {
				if mt, ok := s.Ty.Underlying().(*types.Map); ok {
					return intV(ite(eq(s.T, refLit(0)), bvLit(0, 64), env.readAt("Mp."+typeKey(mt)+".card", sArr(sRef, sBV(64)), s.T))), nil
				}
			}
		}
		return nil, fmt.Errorf("len of %T", v)
	case "forall", "exists":
		if len(x.Args) != 4 {
			return nil, fmt.Errorf("%s(k, lo, hi, body)", x.Fn)
		}
		id, ok := x.Args[0].(*EIdent)
		if !ok {
			return nil, fmt.Errorf("%s: first argument must be a name", x.Fn)
		}
		lo, err := arg(1)
		if err != nil {
			return nil, err
		}
		hi, err := arg(2)
		if err != nil {
			return nil, err
		}
		los, err := asInt64(lo)
		if err != nil {
			return nil, err
		}
		his, err := asInt64(hi)
		if err != nil {
			return nil, err
		}
		bvn := fmt.Sprintf("%s!q%d", sanitize(id.Name), r.ctx.n)
		r.ctx.n++
		saved, had := env.names[id.Name]
		if env.names == nil {
			env.names = map[string]Value{}
		}
		env.names[id.Name] = intV(bvn)
		var savedSpec Value
		var hadSpec bool
		if env.spec != nil {
			savedSpec, hadSpec = env.spec[id.Name]
			env.spec[id.Name] = intV(bvn)
		}
		env.qdepth++
		body, err := fr.evalBoolEnv(x.Args[3], env)
		env.qdepth--
		if had {
			env.names[id.Name] = saved
		} else {
			delete(env.names, id.Name)
		}
		if env.spec != nil {
			if hadSpec {
				env.spec[id.Name] = savedSpec
			} else {
				delete(env.spec, id.Name)
			}
		}
		if err != nil {
			return nil, err
		}
		rng := and("(bvsle "+los+" "+bvn+")", "(bvslt "+bvn+" "+his+")")
		if x.Fn == "forall" {
			pats := selectPatterns(body, bvn)
			if pats != "" {
				return boolV(fmt.Sprintf("(forall ((%s (_ BitVec 64))) (! (=> %s %s) %s))", bvn, rng, body, pats)), nil
			}
			return boolV(fmt.Sprintf("(forall ((%s (_ BitVec 64))) (=> %s %s))", bvn, rng, body)), nil
		}
		return boolV(fmt.Sprintf("(exists ((%s (_ BitVec 64))) (and %s %s))", bvn, rng, body)), nil
	case "ite":
		c, err := fr.evalBoolEnv(x.Args[0], env)
		if err != nil {
			return nil, err
		}
		a, err := arg(1)
		if err != nil {
			return nil, err
		}
		b, err := arg(2)
		if err != nil {
			return nil, err
		}
		a, b, err = coerce(a, b)
		if err != nil {
			return nil, err
		}
		return iteValue(r.ctx, c, a, b)
	case "u8", "u16", "u32", "u64", "i8", "i16", "i32", "i64", "int", "uint", "byte", "f64":
		v, err := arg(0)
		if err != nil {
			return nil, err
		}
		w, sg := 64, true
		switch x.Fn {
		case "u8", "byte":
			w, sg = 8, false
		case "u16":
			w, sg = 16, false
		case "u32":
			w, sg = 32, false
		case "u64", "uint":
			w, sg = 64, false
		case "i8":
			w = 8
		case "i16":
			w = 16
		case "i32":
			w = 32
		}
		if u, ok := v.(*UInt); ok {
			val := u.V
			if u.Neg {
				val = uint64(-int64(u.V))
			}
			if x.Fn == "f64" {
				f := float64(u.V)
				if u.Neg {
					f = -f
				}
				return &Sc{T: f64Lit(f), K: kF64, W: 64, Signed: true}, nil
			}
			return bv(bvLit(val, w), w, sg), nil
		}
		s, ok := v.(*Sc)
		if !ok {
			return nil, fmt.Errorf("conversion of %T", v)
		}
		if s.K == kBool {
			return bv(ite(s.T, bvLit(1, w), bvLit(0, w)), w, sg), nil
		}
		if s.K == kRef {
			return nil, fmt.Errorf("references cannot be converted to integers")
		}
		if x.Fn == "f64" {
			return convScalar(r, s, kF64, 64, true, nil)
		}
		return convScalar(r, s, kBV, w, sg, nil)
	case "fresh":
		// fresh(x): x was allocated during the call / function
		v, err := arg(0)
		if err != nil {
			return nil, err
		}
		var ref string
		switch s := v.(type) {
		case *Sc:
			ref = s.T
		case *SliceV:
			ref = s.Base
		case *IfaceV:
			ref = s.Ref
		default:
			return nil, fmt.Errorf("fresh of %T", v)
		}
		if env.old == nil {
			return nil, fmt.Errorf("fresh() needs an old state")
		}
		return boolV(and(refLe(env.old.alloc, ref), refLt(ref, env.st.alloc))), nil
	case "calls":
		// calls(f): number of times the function value f has been called so far
		v, err := arg(0)
		if err != nil {
			return nil, err
		}
		ref, err := refOf(v)
		if err != nil {
			return nil, err
		}
		return intV(env.readAt("G.calls", sArr(sRef, sBV(64)), ref)), nil
	case "retof":
		// retof(f, k): the k-th result of the latest call of the package function f made by this function
		var fname string
		switch a := x.Args[0].(type) {
		case *EIdent:
			fname = a.Name
		case *EStr:
			fname = a.S // methods: retof("(time.Time).Year", 0)
		default:
			return nil, fmt.Errorf("retof: first argument must name a function")
		}
		ki, ok := x.Args[1].(*EInt)
		if !ok {
			return nil, fmt.Errorf("retof: result index must be a literal")
		}
		lv, ok := fr.lastRet["fn:"+fname]
		if !ok {
			return nil, fmt.Errorf("retof: no call of %s has been executed yet", fname)
		}
		if tv, ok := lv.(*TupleV); ok {
			if int(ki.V) >= len(tv.E) {
				return nil, fmt.Errorf("retof: no result %d", ki.V)
			}
			return tv.E[ki.V], nil
		}
		return lv, nil
	case "ret":
		// ret(f, k): the k-th result of the latest call made through the function value f
		// (unconstrained on paths that never made one)
		v, err := arg(0)
		if err != nil {
			return nil, err
		}
		sc, ok := v.(*Sc)
		if !ok {
			return nil, fmt.Errorf("ret of %T", v)
		}
		ki, ok := x.Args[1].(*EInt)
		if !ok {
			return nil, fmt.Errorf("ret: result index must be a literal")
		}
		lv, ok := fr.lastRet[sc.T]
		if !ok {
			return nil, fmt.Errorf("ret: no call through this function value has been executed yet")
		}
		if tv, ok := lv.(*TupleV); ok {
			if int(ki.V) >= len(tv.E) {
				return nil, fmt.Errorf("ret: no result %d", ki.V)
			}
			return tv.E[ki.V], nil
		}
		return lv, nil
	case "has":
		// has(m, k): key k is present in map m
		mv, err := arg(0)
		if err != nil {
			return nil, err
		}
		kv, err := arg(1)
		if err != nil {
			return nil, err
		}
		ms, ok := mv.(*Sc)
		if !ok || ms.Ty == nil {
			return nil, fmt.Errorf("has: not a map")
		}
		mt, ok := ms.Ty.Underlying().(*types.Map)
		if !ok {
			return nil, fmt.Errorf("has: not a map")
		}
		hasC, hs, _, err := mapComps(mt)
		if err != nil {
			return nil, err
		}
		var kt string
		switch k := kv.(type) {
		case *Sc:
			kt = k.T
		case *UInt:
			kl, _ := leavesOf(mt.Key())
			kt = bvLit(k.V, kl[0].w)
		default:
			return nil, fmt.Errorf("has: bad key")
		}
		return boolV(and(not(eq(ms.T, refLit(0))), sel(env.readAt(hasC, hs, ms.T), kt))), nil
	case "loopfresh":
		// loopfresh(x): x was allocated after the enclosing loop was entered
		v, err := arg(0)
		if err != nil {
			return nil, err
		}
		if env.loopEntry == nil {
			return nil, fmt.Errorf("loopfresh() is only available in loop clauses")
		}
		ref, err := refOf(v)
		if err != nil {
			return nil, err
		}
		return boolV(and(refLe(env.loopEntry.alloc, ref), refLt(ref, env.st.alloc))), nil
	case "allocated":
		v, err := arg(0)
		if err != nil {
			return nil, err
		}
		var ref string
		switch s := v.(type) {
		case *Sc:
			ref = s.T
		case *SliceV:
			ref = s.Base
		case *IfaceV:
			ref = s.Ref
		}
		return boolV(and(refLe("0", ref), refLt(ref, env.state().alloc))), nil
	case "base":
		v, err := arg(0)
		if err != nil {
			return nil, err
		}
		switch s := v.(type) {
		case *SliceV:
			return &Sc{T: s.Base, K: kRef, W: 32}, nil
		case *IfaceV:
			return &Sc{T: s.Ref, K: kRef, W: 32}, nil
		case *Sc:
			return &Sc{T: s.T, K: kRef, W: 32}, nil
		}
		return nil, fmt.Errorf("base of %T", v)
	case "off":
		v, err := arg(0)
		if err != nil {
			return nil, err
		}
		if s, ok := v.(*SliceV); ok {
			return intV(s.Off), nil
		}
		return nil, fmt.Errorf("off of %T", v)
	case "tag":
		v, err := arg(0)
		if err != nil {
			return nil, err
		}
		if s, ok := v.(*IfaceV); ok {
			return bv(s.Tag, 16, false), nil
		}
		return nil, fmt.Errorf("tag of %T", v)
	case "isroot":
		// isroot(p): p (of type *T, T a struct that is never embedded by value) is nil or points to the
		// start of an allocation of type T - a fact of Go's type system, not of this program
		v, err := arg(0)
		if err != nil {
			return nil, err
		}
		sc, ok := v.(*Sc)
		if !ok || sc.K != kRef || sc.Ty == nil {
			return nil, fmt.Errorf("isroot of %T", v)
		}
		pt, ok := sc.Ty.Underlying().(*types.Pointer)
		if !ok {
			return nil, fmt.Errorf("isroot: not a pointer")
		}
		r.declareOnce("(declare-fun rtype (" + sRef + ") Int)")
		id := r.tagOf(pt.Elem())
		return boolV(or(eq(sc.T, refLit(0)), and(fmt.Sprintf("(= (mod %s %d) 0)", sc.T, refStride), fmt.Sprintf("(= (rtype %s) (bv2nat %s))", sc.T, id)))), nil
	case "dyn", "as":
		// dyn(x, T): the interface value x holds a *T (T a named type of the package);
		// as(x, T): the *T it holds (meaningful only under dyn(x, T))
		v, err := arg(0)
		if err != nil {
			return nil, err
		}
		iv, ok := v.(*IfaceV)
		if !ok {
			return nil, fmt.Errorf("%s of %T", x.Fn, v)
		}
		id, ok := x.Args[1].(*EIdent)
		if !ok {
			return nil, fmt.Errorf("%s: second argument must name a type", x.Fn)
		}
		tn, ok := r.eng.pkg.Members[id.Name].(*ssa.Type)
		if !ok {
			return nil, fmt.Errorf("%s: %s is not a type of the package", x.Fn, id.Name)
		}
		pt := types.NewPointer(tn.Type())
		if x.Fn == "dyn" {
			return boolV(eq(iv.Tag, r.tagOf(pt))), nil
		}
		return &Sc{T: iv.Ref, K: kRef, W: 32, Ty: pt}, nil
	case "is":
		a, err := arg(0)
		if err != nil {
			return nil, err
		}
		b, err := arg(1)
		if err != nil {
			return nil, err
		}
		ia, ok1 := a.(*IfaceV)
		ib, ok2 := b.(*IfaceV)
		if !ok1 || !ok2 {
			return nil, fmt.Errorf("is(err, err)")
		}
		r.declareOnce("(declare-fun err.wraps (" + sRef + " " + sRef + ") Bool)")
		return boolV(or(eq(ia.Ref, ib.Ref), "(err.wraps "+ia.Ref+" "+ib.Ref+")")), nil
	case "mulok":
		// mulok(a, b): the signed product a*b does not overflow
		a, err := arg(0)
		if err != nil {
			return nil, err
		}
		b, err := arg(1)
		if err != nil {
			return nil, err
		}
		a, b, err = coerce(a, b)
		if err != nil {
			return nil, err
		}
		sa, sb := a.(*Sc), b.(*Sc)
		if sa.Signed {
			return boolV("(and (bvsmul_noovfl " + sa.T + " " + sb.T + ") (bvsmul_noudfl " + sa.T + " " + sb.T + "))"), nil
		}
		return boolV("(bvumul_noovfl " + sa.T + " " + sb.T + ")"), nil
	case "elemsOf", "bytesOf":
		// the contents of a slice as an abstract sequence value (compare with ==)
		v, err := arg(0)
		if err != nil {
			return nil, err
		}
		sq, err := fr.toSeq(v, env)
		if err != nil {
			return nil, err
		}
		s := sq.(*SeqV)
		return &Sc{T: r.seqOf(s.ElemSort, s.Arr, s.Off, s.Len), K: kArr, Sort: "Seq." + sanitize(s.ElemSort)}, nil
	case "sub":
		// sub(arr, off, n): abstract sequence of n elements of a ghost array starting at off
		a, err := arg(0)
		if err != nil {
			return nil, err
		}
		as, ok := a.(*Sc)
		if !ok || as.K != kArr {
			return nil, fmt.Errorf("sub: first argument must be an array")
		}
		ov, err := arg(1)
		if err != nil {
			return nil, err
		}
		nv, err := arg(2)
		if err != nil {
			return nil, err
		}
		os, err := asInt64(ov)
		if err != nil {
			return nil, err
		}
		ns, err := asInt64(nv)
		if err != nil {
			return nil, err
		}
		_, es := arrSorts(as.Sort)
		return &Sc{T: r.seqOf(es, as.T, os, ns), K: kArr, Sort: "Seq." + sanitize(es)}, nil
	case "seq":
		// seq(s): the contents of slice s as an abstract sequence in the current state
		v, err := arg(0)
		if err != nil {
			return nil, err
		}
		return fr.toSeq(v, env)
	}
	// macro
	if m, ok := r.eng.specs.Macros[x.Fn]; ok {
		if len(x.Args) != len(m.Params) {
			return nil, fmt.Errorf("%s expects %d arguments", x.Fn, len(m.Params))
		}
		vals := make([]Value, len(m.Params))
		for i := range m.Params {
			v, err := arg(i)
			if err != nil {
				return nil, err
			}
			vals[i] = v
		}
		saved := env.names
		nn := map[string]Value{}
		for k, v := range saved {
			nn[k] = v
		}
		for i, p := range m.Params {
			nn[p] = vals[i]
		}
		env.names = nn
		savedLets := env.lets
		v, err := fr.evalExpr(m.Body, env)
		env.names = saved
		env.lets = savedLets
		if err != nil {
			return nil, fmt.Errorf("in %s: %v", x.Fn, err)
		}
		return v, nil
	}
	// ghost component
	if g, ok := r.eng.specs.Ghosts[x.Fn]; ok {
		v, err := arg(0)
		if err != nil {
			return nil, err
		}
		ref, err := refOf(v)
		if err != nil {
			return nil, fmt.Errorf("%s: %v", x.Fn, err)
		}
		srt := specSort(g.Type)
		return specScalar(env.readAt("G."+g.Name, sArr(sRef, srt), ref), g.Type), nil
	}
	// spec function
	if sf, ok := r.eng.specs.SpecFuncs[x.Fn]; ok {
		if len(x.Args) != len(sf.Params) {
			return nil, fmt.Errorf("%s expects %d arguments", x.Fn, len(sf.Params))
		}
		var terms []string
		for i, p := range sf.Params {
			v, err := arg(i)
			if err != nil {
				return nil, err
			}
			ts, err := fr.specArg(v, p.Type, env)
			if err != nil {
				return nil, fmt.Errorf("%s argument %s: %v", x.Fn, p.Name, err)
			}
			terms = append(terms, ts...)
		}
		t := "(" + "spec." + sf.Name + " " + strings.Join(terms, " ") + ")"
		if len(terms) == 0 {
			t = "spec." + sf.Name
		}
		return specScalar(t, sf.Ret), nil
	}
	return nil, fmt.Errorf("unknown function %s", x.Fn)
}

func refOf(v Value) (string, error) {
	switch s := v.(type) {
	case *Sc:
		if s.K == kRef {
			return s.T, nil
		}
	case *IfaceV:
		return s.Ref, nil
	case *SliceV:
		return s.Base, nil
	}
	return "", fmt.Errorf("expected a reference, got %T", v)
}

func (fr *Frame) toSeq(v Value, env *evalEnv) (Value, error) {
	switch s := v.(type) {
	case *SeqV:
		return s, nil
	case *SliceV:
		ls, err := leavesOf(s.Elem)
		if err != nil || len(ls) != 1 {
			return nil, fmt.Errorf("sequence of %s", s.Elem)
		}
		return &SeqV{Arr: env.readAt(elemComp(s.Elem), sArr(sRef, sArr(sBV(64), ls[0].sort)), s.Base), Off: s.Off, Len: s.Len, ElemSort: ls[0].sort, ElemK: ls[0].k, ElemW: ls[0].w, ElemSigned: ls[0].signed, ElemTy: s.Elem}, nil
	}
	return nil, fmt.Errorf("cannot view %T as a sequence", v)
}

// specSort maps spec-level type names to SMT sorts.
func specSort(t string) string {
	switch t {
	case "u8", "byte", "i8":
		return sBV(8)
	case "u16", "i16":
		return sBV(16)
	case "u32", "i32":
		return sBV(32)
	case "u64", "i64", "int", "uint":
		return sBV(64)
	case "bool":
		return sBool
	case "ref":
		return sRef
	case "f64":
		return sF64
	case "bytes":
		return sArr(sBV(64), sBV(8))
	case "refs":
		return sArr(sBV(64), sRef)
	}
	if strings.HasPrefix(t, "map[") {
		// map[K]V ghost array
		i := strings.Index(t, "]")
		return sArr(specSort(t[4:i]), specSort(t[i+1:]))
	}
	return "?" + t
}

func specScalar(term, t string) Value {
	switch t {
	case "u8", "byte":
		return bv(term, 8, false)
	case "i8":
		return bv(term, 8, true)
	case "u16":
		return bv(term, 16, false)
	case "i16":
		return bv(term, 16, true)
	case "u32":
		return bv(term, 32, false)
	case "i32":
		return bv(term, 32, true)
	case "u64", "uint":
		return bv(term, 64, false)
	case "i64", "int":
		return bv(term, 64, true)
	case "bool":
		return boolV(term)
	case "ref":
		return &Sc{T: term, K: kRef, W: 32}
	case "f64":
		return &Sc{T: term, K: kF64, W: 64, Signed: true}
	}
	return &Sc{T: term, K: kArr, Sort: specSort(t)}
}

// specArg flattens a value into the SMT arguments of a spec-function parameter.
func (fr *Frame) specArg(v Value, t string, env *evalEnv) ([]string, error) {
	if t == "[]byte" || t == "[]ref" {
		sq, err := fr.toSeq(v, env)
		if err != nil {
			return nil, err
		}
		s := sq.(*SeqV)
		return []string{s.Arr, s.Off, s.Len}, nil
	}
	want := specScalar("", t).(*Sc)
	if u, ok := v.(*UInt); ok {
		val := u.V
		if u.Neg {
			val = uint64(-int64(u.V))
		}
		if want.K != kBV {
			return nil, fmt.Errorf("constant for non-integer parameter")
		}
		return []string{bvLit(val, want.W)}, nil
	}
	s, ok := v.(*Sc)
	if !ok {
		return nil, fmt.Errorf("got %T for %s", v, t)
	}
	if s.K == kBV && want.K == kBV && s.W != want.W {
		return nil, fmt.Errorf("width %d given for %s", s.W, t)
	}
	if s.K != want.K && !(s.K == kRef && want.K == kBV) && !(s.K == kBV && want.K == kRef) {
		return nil, fmt.Errorf("kind mismatch for %s", t)
	}
	return []string{s.T}, nil
}

// ---------------------------------------------------------------------------
// modifies clauses

func (fr *Frame) applyModifies(m Expr, env *evalEnv, post *postState) error {
	r := fr.run
	switch x := m.(type) {
	case *ESel:
		base, err := fr.evalExpr(x.X, env)
		if err != nil {
			return err
		}
		s, ok := base.(*Sc)
		if !ok || s.K != kRef || s.Ty == nil {
			return fmt.Errorf("modifies: base is not a typed pointer")
		}
		pt, ok := s.Ty.Underlying().(*types.Pointer)
		if !ok {
			return fmt.Errorf("modifies: base is not a pointer")
		}
		st := pt.Elem()
		u, ok := st.Underlying().(*types.Struct)
		if !ok {
			return fmt.Errorf("modifies: not a struct")
		}
		for i := 0; i < u.NumFields(); i++ {
			f := u.Field(i)
			if f.Name() != x.Name && x.Name != "$all" {
				continue
			}
			if isStruct(f.Type()) {
				sub := &Sc{T: r.fldRefT(st, f, s.T), K: kRef, W: 32, Ty: types.NewPointer(f.Type())}
				if err := fr.modAllFields(sub, post); err != nil {
					return err
				}
				continue
			}
			ls, err := leavesOf(f.Type())
			if err != nil {
				continue
			}
			for _, l := range ls {
				post.addMod(fieldComp(st, f)+l.suffix, sArr(sRef, l.sort), s.T)
			}
		}
		return nil
	case *ECall:
		switch x.Fn {
		case "elems":
			// elems(s): the backing array of slice s
			v, err := fr.evalExpr(x.Args[0], env)
			if err != nil {
				return err
			}
			sv, ok := v.(*SliceV)
			if !ok {
				return fmt.Errorf("elems of %T", v)
			}
			ls, err := leavesOf(sv.Elem)
			if err != nil {
				return err
			}
			for _, l := range ls {
				post.addMod(elemComp(sv.Elem)+l.suffix, sArr(sRef, sArr(sBV(64), l.sort)), sv.Base)
			}
			return nil
		case "all":
			// all(p): every field of *p
			v, err := fr.evalExpr(x.Args[0], env)
			if err != nil {
				return err
			}
			s, ok := v.(*Sc)
			if !ok {
				return fmt.Errorf("all of %T", v)
			}
			return fr.modAllFields(s, post)
		case "mapof":
			v, err := fr.evalExpr(x.Args[0], env)
			if err != nil {
				return err
			}
			s, ok := v.(*Sc)
			if !ok || s.Ty == nil {
				return fmt.Errorf("mapof of %T", v)
			}
			mt, ok := s.Ty.Underlying().(*types.Map)
			if !ok {
				return fmt.Errorf("mapof of non-map")
			}
			has, hs, ks, err := mapComps(mt)
			if err != nil {
				return err
			}
			post.addMod(has, hs, s.T)
			post.addMod("Mp."+typeKey(mt)+".card", sArr(sRef, sBV(64)), s.T)
			vc, vl, _, err := r.mapValComp(mt)
			if err != nil {
				return err
			}
			for _, l := range vl {
				post.addMod(vc+l.suffix, sArr(sRef, sArr(ks, l.sort)), s.T)
			}
			return nil
		case "writer":
			// writer(w): the bit cache of BitsWriter w and the ghost state of its sink
			v, err := fr.evalExpr(x.Args[0], env)
			if err != nil {
				return err
			}
			ws, ok := v.(*Sc)
			if !ok || ws.Ty == nil {
				return fmt.Errorf("writer of %T", v)
			}
			stT, u := r.bwStruct(ws.Ty)
			for _, fn := range []string{"cache", "cacheLen"} {
				f := fieldByName(u, fn)
				post.addMod(fieldComp(stT, f), sArr(sRef, sBV(8)), ws.T)
			}
			fw := fieldByName(u, "w")
			sinkRef := sel(r.heap.get(env.state(), fieldComp(stT, fw)+".ref", sArr(sRef, sRef)), ws.T)
			post.addMod(compSinkN, sortSinkN, sinkRef)
			post.addMod(compSinkData, sortSinkData, sinkRef)
			post.addMod(compSinkFails, sortSinkN, sinkRef)
			return nil
		case "everything":
			r.havocAll(post.st)
			post.pure = true // nothing further to do lazily: all components are new
			return nil
		}
		if g, ok := r.eng.specs.Ghosts[x.Fn]; ok {
			v, err := fr.evalExpr(x.Args[0], env)
			if err != nil {
				return err
			}
			ref, err := refOf(v)
			if err != nil {
				return err
			}
			post.addMod("G."+g.Name, sArr(sRef, specSort(g.Type)), ref)
			return nil
		}
	}
	return fmt.Errorf("unsupported modifies target %s", exprString(m))
}

func (fr *Frame) modAllFields(s *Sc, post *postState) error {
	r := fr.run
	pt, ok := s.Ty.Underlying().(*types.Pointer)
	if !ok {
		return fmt.Errorf("all(): not a pointer")
	}
	st := pt.Elem()
	u, ok := st.Underlying().(*types.Struct)
	if !ok {
		return fmt.Errorf("all(): not a struct")
	}
	for i := 0; i < u.NumFields(); i++ {
		f := u.Field(i)
		if isStruct(f.Type()) {
			sub := &Sc{T: r.fldRefT(st, f, s.T), K: kRef, W: 32, Ty: types.NewPointer(f.Type())}
			if err := fr.modAllFields(sub, post); err != nil {
				return err
			}
			continue
		}
		ls, err := leavesOf(f.Type())
		if err != nil {
			continue
		}
		for _, l := range ls {
			post.addMod(fieldComp(st, f)+l.suffix, sArr(sRef, l.sort), s.T)
		}
	}
	return nil
}

// ---------------------------------------------------------------------------
// Spec prelude

func (r *Run) emitSpecPrelude() {
	sp := r.eng.specs
	r.ctx.prelude = append(r.ctx.prelude, "(declare-fun refkind ("+sRef+") (_ BitVec 16))")
	if sp == nil {
		return
	}
	fr := &Frame{run: r, names: map[string]Value{}, vals: map[ssa.Value]Value{}}
	for _, name := range sp.SpecOrder {
		sf := sp.SpecFuncs[name]
		var ps []string
		var args []string
		env := &evalEnv{fr: fr, spec: map[string]Value{}, names: map[string]Value{}}
		for _, p := range sf.Params {
			if p.Type == "[]byte" || p.Type == "[]ref" {
				es := sBV(8)
				ek, ew := kBV, 8
				if p.Type == "[]ref" {
					es, ek, ew = sRef, kRef, 32
				}
				ps = append(ps, fmt.Sprintf("(%s.arr %s) (%s.off (_ BitVec 64)) (%s.len (_ BitVec 64))", p.Name, sArr(sBV(64), es), p.Name, p.Name))
				args = append(args, p.Name+".arr", p.Name+".off", p.Name+".len")
				env.spec[p.Name] = &SeqV{Arr: p.Name + ".arr", Off: p.Name + ".off", Len: p.Name + ".len", ElemSort: es, ElemK: ek, ElemW: ew}
				continue
			}
			ps = append(ps, fmt.Sprintf("(%s %s)", p.Name, specSort(p.Type)))
			args = append(args, p.Name)
			env.spec[p.Name] = specScalar(p.Name, p.Type)
		}
		ret := specSort(sf.Ret)
		if sf.Body == nil {
			var srts []string
			for _, p := range ps {
				// extract sorts
				_ = p
			}
			_ = srts
			r.ctx.prelude = append(r.ctx.prelude, fmt.Sprintf("(declare-fun spec.%s (%s) %s)", sf.Name, paramSorts(sf), ret))
			continue
		}
		body, err := fr.evalExpr(sf.Body, env)
		if err != nil {
			panic(fmt.Sprintf("spec %s: %v", sf.Name, err))
		}
		bt, err := specResultTerm(body, sf.Ret)
		if err != nil {
			panic(fmt.Sprintf("spec %s: %v", sf.Name, err))
		}
		if sf.Rec {
			r.ctx.prelude = append(r.ctx.prelude, fmt.Sprintf("(declare-fun spec.%s (%s) %s)", sf.Name, paramSorts(sf), ret))
			app := "(spec." + sf.Name + " " + strings.Join(args, " ") + ")"
			r.ctx.prelude = append(r.ctx.prelude, fmt.Sprintf("(assert (forall (%s) (! (= %s %s) :pattern (%s))))", strings.Join(ps, " "), app, bt, app))
		} else {
			line := fmt.Sprintf("(define-fun spec.%s (%s) %s %s)", sf.Name, strings.Join(ps, " "), ret, bt)
			r.ctx.prelude = append(r.ctx.prelude, line)
			r.ctx.opaqueAlt[line] = fmt.Sprintf("(declare-fun spec.%s (%s) %s)", sf.Name, paramSorts(sf), ret)
		}
	}
}

func paramSorts(sf *SpecFunc) string {
	var s []string
	for _, p := range sf.Params {
		switch p.Type {
		case "[]byte":
			s = append(s, sArr(sBV(64), sBV(8)), sBV(64), sBV(64))
		case "[]ref":
			s = append(s, sArr(sBV(64), sRef), sBV(64), sBV(64))
		default:
			s = append(s, specSort(p.Type))
		}
	}
	return strings.Join(s, " ")
}

func specResultTerm(v Value, ret string) (string, error) {
	want := specScalar("", ret).(*Sc)
	switch x := v.(type) {
	case *UInt:
		val := x.V
		if x.Neg {
			val = uint64(-int64(x.V))
		}
		return bvLit(val, want.W), nil
	case *Sc:
		if x.K == kBV && want.K == kBV && x.W != want.W {
			return "", fmt.Errorf("body has width %d, declared %s", x.W, ret)
		}
		return x.T, nil
	}
	return "", fmt.Errorf("body is %T", v)
}

var opToken = map[string]token.Token{
	"+": token.ADD, "-": token.SUB, "*": token.MUL, "/": token.QUO, "%": token.REM,
	"&": token.AND, "|": token.OR, "^": token.XOR, "&^": token.AND_NOT,
	"==": token.EQL, "!=": token.NEQ, "<": token.LSS, "<=": token.LEQ, ">": token.GTR, ">=": token.GEQ,
}

var _ = constant.MakeBool
var _ = math.Abs

var boundVarRe = regexp.MustCompile(`![q][0-9]+`)

// mentionsBound: the term contains a quantifier-bound variable (named x!qN), so it cannot be
// given a top-level name.
func mentionsBound(t string) bool { return boundVarRe.MatchString(t) }
