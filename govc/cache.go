package main

import (
	"crypto/sha256"
	"encoding/json"
	"fmt"
	"os"
	"path/filepath"
	"sort"
	"sync"
)

// Proof cache: sha256 of a complete SMT script -> the definite answer a solver gave for
// exactly that script. The quick tier consults it (a query that is byte-for-byte the one
// already decided needs no second decision); the thorough tier ignores it and re-proves
// everything. Only answers that matched the expectation are stored.
type cacheEntry struct {
	Status  string  `json:"status"`
	Solver  string  `json:"solver"`
	Seconds float64 `json:"seconds"`
}

var (
	proofCache = map[string]cacheEntry{}
	cacheMu    sync.Mutex
	cacheNew   = map[string]cacheEntry{}
	useCache   = false
	cacheHits  int
	cacheFile  = filepath.Join(verifDir, "proof_cache.json")
)

func loadCache() {
	b, err := os.ReadFile(cacheFile)
	if err != nil {
		return
	}
	json.Unmarshal(b, &proofCache)
}

// obligKey identifies everything the solvers are given for an obligation: the full query and the
// weakened variant raced beside it (an answer may come from either).
func obligKey(o *Oblig) string {
	return scriptKey(o.Script + "\x00" + o.Alt)
}

func scriptKey(script string) string {
	sum := sha256.Sum256([]byte(script))
	return fmt.Sprintf("%x", sum[:16])
}

func cacheLookup(o *Oblig) (SolveResult, bool) {
	if !useCache {
		return SolveResult{}, false
	}
	cacheMu.Lock()
	defer cacheMu.Unlock()
	e, ok := proofCache[obligKey(o)]
	if !ok || e.Status != o.Expect {
		if os.Getenv("GOVC_DEBUG_CACHE") != "" {
			fmt.Fprintf(os.Stderr, "cache miss: %s %s\n", o.Name, scriptKey(o.Script)[:16])
		}
		return SolveResult{}, false
	}
	cacheHits++
	return SolveResult{Status: e.Status, Solver: e.Solver + " [proof cache]", Seconds: 0, SHA: scriptKey(o.Script)[:16]}, true
}

func cacheStore(o *Oblig, r SolveResult) {
	if r.Status != o.Expect || r.Status == "" {
		return
	}
	cacheMu.Lock()
	defer cacheMu.Unlock()
	cacheNew[obligKey(o)] = cacheEntry{Status: r.Status, Solver: r.Solver, Seconds: round3(r.Seconds)}
}

func saveCache() {
	cacheMu.Lock()
	defer cacheMu.Unlock()
	if len(cacheNew) == 0 {
		return
	}
	// re-read to merge with concurrent writers
	cur := map[string]cacheEntry{}
	if b, err := os.ReadFile(cacheFile); err == nil {
		json.Unmarshal(b, &cur)
	}
	for k, v := range cacheNew {
		cur[k] = v
	}
	keys := make([]string, 0, len(cur))
	for k := range cur {
		keys = append(keys, k)
	}
	sort.Strings(keys)
	out := "{\n"
	for i, k := range keys {
		b, _ := json.Marshal(cur[k])
		out += fmt.Sprintf(" %q: %s", k, b)
		if i < len(keys)-1 {
			out += ","
		}
		out += "\n"
	}
	out += "}\n"
	os.WriteFile(cacheFile, []byte(out), 0o644)
}
