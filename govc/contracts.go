package main

import (
	"bufio"
	"fmt"
	"os"
	"regexp"
	"strconv"
	"strings"
)

// ---------------------------------------------------------------------------
// Contract file format (lines starting with //@ or // @ in /repo/contracts_verif.go,
// plain lines in /verif/spec/*.spec):
//
//   func <name>                       start a function contract
//   extern <name>                     same, but the contract is assumed (trusted)
//   requires [tags] label: expr
//   ensures  [tags] label: expr
//   modifies path, path, ...
//   loop N invariant [tags] label: expr
//   loop N decreases expr
//   at call <callee>#k assert [tags] label: expr
//   at call <callee>#k assume label: expr      (only allowed in extern/trusted blocks)
//   let name = expr                   syntactic abbreviation for later clauses of the block
//   opt name                          option flag: pure, noalloc, inline, noinline
//
//   spec name(p T, ...) T = expr
//   spec rec name(p T, ...) T = expr  (uninterpreted + defining axiom)
//   ghost name T                      ghost component indexed by reference
//   lemma name(p T, ...) [tags]       followed by requires/ensures/decreases/use lines
//   use lemma                         make a lemma available (as axiom) in a function block

type Clause struct {
	Kind  string // requires ensures invariant decreases assert assume
	Tags  []string
	Label string
	Text  string
	E     Expr
	Loop  int
	Call  string // callee name for "at call"
	CallK int
	Line  int
	File  string
}

type FuncContract struct {
	Name     string
	Extern   bool
	Requires []*Clause
	Ensures  []*Clause
	Modifies []Expr
	ModText  []string
	Loops    map[int][]*Clause
	AtCall   []*Clause
	Lets     []letDef
	Opts     map[string]bool
	Uses     []string
	Splits   []Expr
	File     string
	Line     int
}

type letDef struct {
	Name string
	E    Expr
}

type Param struct {
	Name string
	Type string
}

type SpecFunc struct {
	Name   string
	Params []Param
	Ret    string
	Body   Expr
	Text   string
	Rec    bool
}

type Lemma struct {
	Name      string
	Params    []Param
	Tags      []string
	Requires  []*Clause
	Ensures   []*Clause
	Decreases Expr
	Inst      map[string]string // "instance p = q": when the lemma is used as an axiom, parameter p is instantiated with q
	Trigger   bool     // "trigger": the axiom form gets the conclusion's spec applications as its pattern
	Fixed     []string // parameters held fixed in the induction hypothesis ("decreases e fixed a b")
	Uses      []string
	Lets      []letDef
	Slow      bool
	File      string
	Line      int
}

type Macro struct {
	Name   string
	Params []string
	Body   Expr
}

type GhostComp struct {
	Name string
	Type string
}

type Specs struct {
	Funcs     map[string]*FuncContract
	FuncOrder []string
	SpecFuncs map[string]*SpecFunc
	SpecOrder []string
	Lemmas    map[string]*Lemma
	LemmaOrd  []string
	Ghosts    map[string]*GhostComp
	Macros    map[string]*Macro
	TagSets   map[string][]string
}

func newSpecs() *Specs {
	return &Specs{Funcs: map[string]*FuncContract{}, SpecFuncs: map[string]*SpecFunc{}, Lemmas: map[string]*Lemma{}, Ghosts: map[string]*GhostComp{}, Macros: map[string]*Macro{}, TagSets: map[string][]string{}}
}

var keywordRe = regexp.MustCompile(`^(func|extern|requires|ensures|modifies|loop|at|let|opt|spec|ghost|lemma|use|decreases|define|split|tagset|instance|trigger)\b`)
var tagRe = regexp.MustCompile(`^\[([A-Za-z0-9, ]*)\]\s*`)
var labelRe = regexp.MustCompile(`^([A-Za-z_][A-Za-z0-9_.]*):\s*`)

func (sp *Specs) loadFile(path string, commentOnly bool) error {
	f, err := os.Open(path)
	if err != nil {
		return err
	}
	defer f.Close()
	sc := bufio.NewScanner(f)
	sc.Buffer(make([]byte, 1<<20), 1<<20)
	type rawLine struct {
		text string
		line int
	}
	var stmts []rawLine
	ln := 0
	for sc.Scan() {
		ln++
		l := strings.TrimSpace(sc.Text())
		if commentOnly {
			if strings.HasPrefix(l, "//@") {
				l = strings.TrimSpace(l[3:])
			} else if strings.HasPrefix(l, "// @") {
				l = strings.TrimSpace(l[4:])
			} else {
				continue
			}
		}
		if i := strings.Index(l, "//"); i >= 0 {
			l = strings.TrimSpace(l[:i])
		}
		if l == "" || strings.HasPrefix(l, "#") {
			continue
		}
		if keywordRe.MatchString(l) || len(stmts) == 0 {
			stmts = append(stmts, rawLine{l, ln})
		} else {
			stmts[len(stmts)-1].text += " " + l
		}
	}
	var cur *FuncContract
	var curLemma *Lemma
	for _, st := range stmts {
		kw := keywordRe.FindString(st.text)
		rest := strings.TrimSpace(st.text[len(kw):])
		fail := func(err error) error { return fmt.Errorf("%s:%d: %v", path, st.line, err) }
		switch kw {
		case "func", "extern":
			name := rest
			if _, dup := sp.Funcs[name]; dup {
				return fail(fmt.Errorf("duplicate contract for %s", name))
			}
			cur = &FuncContract{Name: name, Extern: kw == "extern", Loops: map[int][]*Clause{}, Opts: map[string]bool{}, File: path, Line: st.line}
			curLemma = nil
			sp.Funcs[name] = cur
			sp.FuncOrder = append(sp.FuncOrder, name)
		case "spec":
			sf, err := parseSpecFunc(rest)
			if err != nil {
				return fail(err)
			}
			sp.SpecFuncs[sf.Name] = sf
			sp.SpecOrder = append(sp.SpecOrder, sf.Name)
			cur, curLemma = nil, nil
		case "tagset":
			// tagset NAME = C01, C02, ...
			i := strings.Index(rest, "=")
			if i < 0 {
				return fail(fmt.Errorf("tagset NAME = ids"))
			}
			var ids []string
			for _, t := range strings.Split(rest[i+1:], ",") {
				if t = strings.TrimSpace(t); t != "" {
					ids = append(ids, t)
				}
			}
			sp.TagSets[strings.TrimSpace(rest[:i])] = ids
		case "define":
			// define name(a, b) = expr
			i := strings.Index(rest, "(")
			j := strings.Index(rest, ")")
			k := strings.Index(rest, "=")
			if i < 0 || j < i || k < j {
				return fail(fmt.Errorf("define name(params) = expr"))
			}
			m := &Macro{Name: strings.TrimSpace(rest[:i])}
			for _, p := range strings.Split(rest[i+1:j], ",") {
				if p = strings.TrimSpace(p); p != "" {
					m.Params = append(m.Params, p)
				}
			}
			e, err := parseExpr(strings.TrimSpace(rest[k+1:]))
			if err != nil {
				return fail(err)
			}
			m.Body = e
			sp.Macros[m.Name] = m
			cur, curLemma = nil, nil
		case "ghost":
			fs := strings.Fields(rest)
			if len(fs) != 2 {
				return fail(fmt.Errorf("ghost name type"))
			}
			sp.Ghosts[fs[0]] = &GhostComp{fs[0], fs[1]}
		case "lemma":
			lm, err := parseLemmaHead(rest)
			if err != nil {
				return fail(err)
			}
			lm.File, lm.Line = path, st.line
			sp.Lemmas[lm.Name] = lm
			sp.LemmaOrd = append(sp.LemmaOrd, lm.Name)
			curLemma, cur = lm, nil
		case "requires", "ensures":
			cl, err := parseClause(kw, rest)
			if err != nil {
				return fail(err)
			}
			cl.Line, cl.File = st.line, path
			if curLemma != nil {
				if kw == "requires" {
					curLemma.Requires = append(curLemma.Requires, cl)
				} else {
					curLemma.Ensures = append(curLemma.Ensures, cl)
				}
			} else if cur != nil {
				if kw == "requires" {
					cur.Requires = append(cur.Requires, cl)
				} else {
					cur.Ensures = append(cur.Ensures, cl)
				}
			} else {
				return fail(fmt.Errorf("clause outside block"))
			}
		case "trigger":
			if curLemma == nil {
				return fail(fmt.Errorf("trigger outside lemma"))
			}
			curLemma.Trigger = true
		case "instance":
			if curLemma == nil {
				return fail(fmt.Errorf("instance outside lemma"))
			}
			fs := strings.Fields(rest)
			if len(fs) != 3 || fs[1] != "=" {
				return fail(fmt.Errorf("instance p = q"))
			}
			if curLemma.Inst == nil {
				curLemma.Inst = map[string]string{}
			}
			curLemma.Inst[fs[0]] = fs[2]
		case "decreases":
			if curLemma == nil {
				return fail(fmt.Errorf("decreases outside lemma"))
			}
			if i := strings.Index(rest, " fixed "); i >= 0 {
				curLemma.Fixed = strings.Fields(rest[i+7:])
				rest = rest[:i]
			}
			e, err := parseExpr(rest)
			if err != nil {
				return fail(err)
			}
			curLemma.Decreases = e
		case "modifies":
			if cur == nil {
				return fail(fmt.Errorf("modifies outside func"))
			}
			for _, p := range splitTop(rest, ',') {
				p = strings.TrimSpace(p)
				if p == "" {
					continue
				}
				e, err := parseExpr(p)
				if err != nil {
					return fail(err)
				}
				cur.Modifies = append(cur.Modifies, e)
				cur.ModText = append(cur.ModText, p)
			}
		case "loop":
			if cur == nil {
				return fail(fmt.Errorf("loop outside func"))
			}
			fs := strings.SplitN(rest, " ", 3)
			if len(fs) < 3 {
				return fail(fmt.Errorf("loop N invariant|decreases expr"))
			}
			n, err := strconv.Atoi(fs[0])
			if err != nil {
				return fail(err)
			}
			cl, err := parseClause(fs[1], strings.TrimSpace(fs[2]))
			if err != nil {
				return fail(err)
			}
			cl.Loop, cl.Line, cl.File = n, st.line, path
			cur.Loops[n] = append(cur.Loops[n], cl)
		case "at":
			if cur == nil {
				return fail(fmt.Errorf("at outside func"))
			}
			// at call NAME#k assert ...   |  at return assert ...
			fs := strings.SplitN(rest, " ", 2)
			if len(fs) < 2 {
				return fail(fmt.Errorf("bad at clause"))
			}
			var callee string
			k := 0
			body := fs[1]
			if fs[0] == "read" {
				// at read Type.field#k assert ...   (k-th load of that field, in static order)
				gs := strings.SplitN(strings.TrimSpace(body), " ", 2)
				if len(gs) < 2 {
					return fail(fmt.Errorf("bad at read clause"))
				}
				callee = "$read:" + gs[0]
				if i := strings.LastIndex(callee, "#"); i >= 0 {
					k, err = strconv.Atoi(callee[i+1:])
					if err != nil {
						return fail(err)
					}
					callee = callee[:i]
				}
				body = strings.TrimSpace(gs[1])
			} else if fs[0] == "call" {
				gs := strings.SplitN(strings.TrimSpace(body), " ", 2)
				if len(gs) < 2 {
					return fail(fmt.Errorf("bad at call clause"))
				}
				callee = gs[0]
				if i := strings.LastIndex(callee, "#"); i >= 0 {
					if callee[i+1:] == "*" {
						k = -1 // every call site of that callee
					} else if k, err = strconv.Atoi(callee[i+1:]); err != nil {
						return fail(err)
					}
					callee = callee[:i]
				}
				body = strings.TrimSpace(gs[1])
			} else if fs[0] == "return" {
				callee = "$return"
				k = -1
			} else if strings.HasPrefix(fs[0], "return#") {
				// at return#K assert ...: the K-th return site in source order ("last": the final one)
				callee = "$return"
				if fs[0] == "return#last" {
					k = -2
				} else if k, err = strconv.Atoi(fs[0][7:]); err != nil {
					return fail(err)
				}
			} else {
				return fail(fmt.Errorf("bad at clause"))
			}
			hs := strings.SplitN(body, " ", 2)
			if len(hs) < 2 || (hs[0] != "assert" && hs[0] != "assume" && hs[0] != "cut") {
				return fail(fmt.Errorf("expected assert/assume/cut"))
			}
			if hs[0] == "assume" && !cur.Extern {
				return fail(fmt.Errorf("assume is only allowed in extern blocks"))
			}
			cl, err := parseClause(hs[0], strings.TrimSpace(hs[1]))
			if err != nil {
				return fail(err)
			}
			cl.Call, cl.CallK, cl.Line, cl.File = callee, k, st.line, path
			cur.AtCall = append(cur.AtCall, cl)
		case "let":
			i := strings.Index(rest, "=")
			if i < 0 {
				return fail(fmt.Errorf("let name = expr"))
			}
			e, err := parseExpr(strings.TrimSpace(rest[i+1:]))
			if err != nil {
				return fail(err)
			}
			ld := letDef{strings.TrimSpace(rest[:i]), e}
			if curLemma != nil {
				curLemma.Lets = append(curLemma.Lets, ld)
			} else if cur != nil {
				cur.Lets = append(cur.Lets, ld)
			} else {
				return fail(fmt.Errorf("let outside block"))
			}
		case "split":
			if cur == nil {
				return fail(fmt.Errorf("split outside func"))
			}
			for _, p := range splitTop(rest, ',') {
				if p = strings.TrimSpace(p); p != "" {
					e, err := parseExpr(p)
					if err != nil {
						return fail(err)
					}
					cur.Splits = append(cur.Splits, e)
				}
			}
		case "opt":
			if curLemma != nil {
				if rest == "slow" {
					curLemma.Slow = true
				}
			} else if cur != nil {
				for _, o := range strings.Fields(rest) {
					cur.Opts[o] = true
				}
			}
		case "use":
			if curLemma != nil {
				curLemma.Uses = append(curLemma.Uses, strings.Fields(rest)...)
			} else if cur != nil {
				cur.Uses = append(cur.Uses, strings.Fields(rest)...)
			}
		default:
			return fail(fmt.Errorf("unparsed line %q", st.text))
		}
	}
	return nil
}

func parseClause(kind, rest string) (*Clause, error) {
	cl := &Clause{Kind: kind}
	if m := tagRe.FindStringSubmatch(rest); m != nil {
		for _, t := range strings.Split(m[1], ",") {
			t = strings.TrimSpace(t)
			if t != "" {
				cl.Tags = append(cl.Tags, t)
			}
		}
		rest = rest[len(m[0]):]
	}
	if m := labelRe.FindStringSubmatch(rest); m != nil && !strings.HasPrefix(rest[len(m[1]):], "::") {
		cl.Label = m[1]
		rest = rest[len(m[0]):]
	}
	cl.Text = rest
	e, err := parseExpr(rest)
	if err != nil {
		return nil, err
	}
	cl.E = e
	return cl, nil
}

func splitTop(s string, sep byte) []string {
	var out []string
	depth := 0
	last := 0
	for i := 0; i < len(s); i++ {
		switch s[i] {
		case '(', '[':
			depth++
		case ')', ']':
			depth--
		default:
			if s[i] == sep && depth == 0 {
				out = append(out, s[last:i])
				last = i + 1
			}
		}
	}
	out = append(out, s[last:])
	return out
}

func parseParams(s string) ([]Param, error) {
	var ps []Param
	for _, p := range splitTop(s, ',') {
		p = strings.TrimSpace(p)
		if p == "" {
			continue
		}
		fs := strings.Fields(p)
		if len(fs) != 2 {
			return nil, fmt.Errorf("bad param %q", p)
		}
		ps = append(ps, Param{fs[0], fs[1]})
	}
	return ps, nil
}

// name(params) ret = expr     (optionally prefixed by "rec")
func parseSpecFunc(s string) (*SpecFunc, error) {
	sf := &SpecFunc{}
	if strings.HasPrefix(s, "rec ") {
		sf.Rec = true
		s = strings.TrimSpace(s[4:])
	}
	i := strings.Index(s, "(")
	if i < 0 {
		return nil, fmt.Errorf("bad spec")
	}
	sf.Name = strings.TrimSpace(s[:i])
	depth := 0
	j := i
	for ; j < len(s); j++ {
		if s[j] == '(' {
			depth++
		} else if s[j] == ')' {
			depth--
			if depth == 0 {
				break
			}
		}
	}
	ps, err := parseParams(s[i+1 : j])
	if err != nil {
		return nil, err
	}
	sf.Params = ps
	rest := strings.TrimSpace(s[j+1:])
	k := strings.Index(rest, "=")
	if k < 0 {
		// uninterpreted
		sf.Ret = strings.TrimSpace(rest)
		return sf, nil
	}
	sf.Ret = strings.TrimSpace(rest[:k])
	sf.Text = strings.TrimSpace(rest[k+1:])
	e, err := parseExpr(sf.Text)
	if err != nil {
		return nil, err
	}
	sf.Body = e
	return sf, nil
}

func parseLemmaHead(s string) (*Lemma, error) {
	lm := &Lemma{}
	i := strings.Index(s, "(")
	j := strings.LastIndex(s, ")")
	if i < 0 || j < i {
		return nil, fmt.Errorf("bad lemma head")
	}
	lm.Name = strings.TrimSpace(s[:i])
	ps, err := parseParams(s[i+1 : j])
	if err != nil {
		return nil, err
	}
	lm.Params = ps
	rest := strings.TrimSpace(s[j+1:])
	if m := tagRe.FindStringSubmatch(rest); m != nil {
		for _, t := range strings.Split(m[1], ",") {
			t = strings.TrimSpace(t)
			if t != "" {
				lm.Tags = append(lm.Tags, t)
			}
		}
	}
	return lm, nil
}

var globalTagSets map[string][]string

func hasTag(tags []string, t string) bool {
	for _, x := range tags {
		if x == t {
			return true
		}
		for _, y := range globalTagSets[x] {
			if y == t {
				return true
			}
		}
	}
	return false
}
