package main

import (
	"os"
	"fmt"
	"go/token"
	"go/types"
	"sort"
	"strings"

	"golang.org/x/tools/go/ssa"
)

// ---------------------------------------------------------------------------
// Block traversal

func (fr *Frame) value(v ssa.Value) (Value, error) {
	switch x := v.(type) {
	case *ssa.Const:
		return fr.run.constValue(x)
	case *ssa.Global:
		return fr.run.globalAddr(x)
	case *ssa.Function:
		return fr.run.funcValue(x, nil), nil
	case *ssa.Builtin:
		return nil, nil
	}
	if val, ok := fr.vals[v]; ok {
		return val, nil
	}
	return nil, fr.run.unsupported("value %s (%T) not computed in %s", v.Name(), v, fr.fn.Name())
}

func (r *Run) funcValue(fn *ssa.Function, bind []Value) Value {
	id, ok := r.fnConst[fn]
	if !ok {
		id = refLit(uint64(0x800+len(r.fnConst)) * refStride)
		r.fnConst[fn] = id
	}
	return &Sc{T: id, K: kRef, W: 32, Fn: &FuncV{Fn: fn, Bind: bind}, Ty: fn.Type()}
}

func (r *Run) globalAddr(g *ssa.Global) (Value, error) {
	t := g.Type().(*types.Pointer).Elem()
	name := g.RelString(nil)
	ref := r.globalRef(name)
	if isStruct(t) {
		return &Sc{T: ref, K: kRef, W: 32, Ty: g.Type()}, nil
	}
	if at, ok := t.Underlying().(*types.Array); ok {
		return &AddrV{Kind: "arr", Ref: ref, Ty: t, N: at.Len()}, nil
	}
	return &AddrV{Kind: "cell", Comp: "C." + typeKey(t), Ref: ref, Ty: t}, nil
}

func (fr *Frame) setVal(v ssa.Value, val Value) {
	if s, ok := val.(*Sc); ok && s.Ty == nil {
		c := *s
		c.Ty = v.Type()
		val = &c
	}
	fr.vals[v] = val
}

type frameSnap struct {
	rets      int
	defers    int
	callCount map[string]int
	edgeSt    map[[2]int]*State
	cur       *ssa.BasicBlock
}

func (fr *Frame) snapshot() frameSnap {
	cc := map[string]int{}
	for k, v := range fr.callCount {
		cc[k] = v
	}
	es := map[[2]int]*State{}
	for k, v := range fr.edgeSt {
		es[k] = v
	}
	return frameSnap{len(fr.rets), len(fr.defers), cc, es, fr.cur}
}

func (fr *Frame) restore(s frameSnap) {
	fr.rets = fr.rets[:s.rets]
	fr.defers = fr.defers[:s.defers]
	fr.callCount = s.callCount
	fr.edgeSt = s.edgeSt
	fr.cur = s.cur
}

func (fr *Frame) runBlocks(region map[*ssa.BasicBlock]bool, start *ssa.BasicBlock, startSt *State) error {
	// clear edges leaving region blocks
	for k := range fr.edgeSt {
		b := fr.fn.Blocks[k[0]]
		if region == nil || region[b] {
			delete(fr.edgeSt, k)
		}
	}
	for _, b := range fr.order {
		if region != nil && !region[b] {
			continue
		}
		if fr.rpoIdx[b] < fr.rpoIdx[start] {
			continue
		}
		var st *State
		if b == start {
			st = startSt
		} else {
			var ins []*State
			var predIdx []int
			for pi, p := range b.Preds {
				if b.Dominates(p) {
					continue // back edge
				}
				if region != nil && !region[p] {
					continue
				}
				es := fr.edgeSt[[2]int{p.Index, b.Index}]
				if es == nil {
					continue
				}
				ins = append(ins, es)
				predIdx = append(predIdx, pi)
			}
			if len(ins) == 0 {
				continue
			}
			var err error
			if li := fr.loops[b]; li != nil {
				st, err = fr.enterLoop(li, ins, predIdx)
			} else {
				st, err = fr.join(b, ins, predIdx)
			}
			if err != nil {
				return err
			}
		}
		if err := fr.execBlock(b, st); err != nil {
			return err
		}
	}
	return nil
}

// phiValues computes the merged value of every phi of b for the given incoming edges.
func (fr *Frame) phiValues(b *ssa.BasicBlock, ins []*State, predIdx []int) (map[*ssa.Phi]Value, error) {
	out := map[*ssa.Phi]Value{}
	for _, in := range b.Instrs {
		phi, ok := in.(*ssa.Phi)
		if !ok {
			break
		}
		var acc Value
		for i := len(ins) - 1; i >= 0; i-- {
			v, err := fr.value(phi.Edges[predIdx[i]])
			if err != nil {
				return nil, err
			}
			if acc == nil {
				acc = v
				continue
			}
			m, err := iteValue(fr.run.ctx, ins[i].guard, v, acc)
			if err != nil {
				return nil, fr.run.unsupported("phi %s in %s: %v", phi.Name(), fr.fn.Name(), err)
			}
			acc = m
		}
		out[phi] = acc
	}
	return out, nil
}

func (fr *Frame) join(b *ssa.BasicBlock, ins []*State, predIdx []int) (*State, error) {
	phis, err := fr.phiValues(b, ins, predIdx)
	if err != nil {
		return nil, err
	}
	st := fr.run.heap.merge(ins)
	for phi, v := range phis {
		fr.setVal(phi, fr.nameValue(phi.Name(), v))
	}
	return st, nil
}

// nameValue gives composite terms short names to keep formulas small.
func (fr *Frame) nameValue(prefix string, v Value) Value {
	c := fr.run.ctx
	switch x := v.(type) {
	case *Sc:
		y := *x
		y.T = c.define(prefix, x.sort(), x.T)
		return &y
	case *SliceV:
		return &SliceV{c.define(prefix+".base", sRef, x.Base), c.define(prefix+".off", sBV(64), x.Off), c.define(prefix+".len", sBV(64), x.Len), c.define(prefix+".cap", sBV(64), x.Cap), x.Elem}
	case *IfaceV:
		return &IfaceV{Tag: c.define(prefix+".tag", sBV(16), x.Tag), Ref: c.define(prefix+".ref", sRef, x.Ref), Conc: x.Conc, ConcTy: x.ConcTy}
	case *StructV:
		y := &StructV{Ty: x.Ty, F: make([]Value, len(x.F))}
		for i, f := range x.F {
			y.F[i] = fr.nameValue(fmt.Sprintf("%s.%d", prefix, i), f)
		}
		return y
	case *TupleV:
		y := &TupleV{E: make([]Value, len(x.E))}
		for i, f := range x.E {
			y.E[i] = fr.nameValue(fmt.Sprintf("%s.%d", prefix, i), f)
		}
		return y
	}
	return v
}

var varargAllocs = map[*ssa.Alloc]bool{}

// ---------------------------------------------------------------------------
// Loops

type loopRun struct {
	entry    *State
	header   *State
	log      map[string]map[string]bool
	frameS   map[string][]string // comp -> invariant refs written
	variant  Value
	iter     *Sc
	entryPhi map[*ssa.Phi]Value
	skipFrame map[string]bool
}

var loopRuns = map[*loopInfo]*loopRun{}

func (fr *Frame) loopAsserts(li *loopInfo) (as []*Clause) {
	if fr.contract == nil {
		return nil
	}
	for _, cl := range fr.contract.Loops[li.ordinal] {
		if cl.Kind == "assert" && fr.run.active(cl.Tags) {
			as = append(as, cl)
		}
	}
	return
}

func (fr *Frame) loopClauses(li *loopInfo) (invs []*Clause, dec *Clause) {
	if fr.contract == nil {
		return nil, nil
	}
	for _, cl := range fr.contract.Loops[li.ordinal] {
		switch cl.Kind {
		case "invariant":
			if fr.run.active(cl.Tags) {
				invs = append(invs, cl)
			}
		case "decreases":
			dec = cl
		}
	}
	return
}

func (fr *Frame) phiNames(li *loopInfo, vals map[*ssa.Phi]Value, iter Value) map[string]Value {
	names := map[string]Value{"iter": iter}
	for phi, v := range vals {
		if phi.Comment != "" {
			names[phi.Comment] = v
		}
	}
	return names
}

func (fr *Frame) enterLoop(li *loopInfo, ins []*State, predIdx []int) (*State, error) {
	r := fr.run
	b := li.header
	entryPhi, err := fr.phiValues(b, ins, predIdx)
	if err != nil {
		return nil, err
	}
	entrySt := r.heap.merge(ins)
	invs, dec := fr.loopClauses(li)
	zero := intV(bvLit(0, 64))
	fr.cur = b
	// 1. invariants hold on entry
	if r.dry == 0 {
		names := fr.phiNames(li, entryPhi, zero)
		for _, cl := range invs {
			g, err := fr.evalBoolEnv(cl.E, &evalEnv{fr: fr, st: entrySt, old: fr.entry, names: names, loopEntry: entrySt, loopEntryNames: fr.phiNames(li, entryPhi, zero)})
			if err != nil {
				return nil, fmt.Errorf("loop %d invariant %s: %v", li.ordinal, cl.Label, err)
			}
			r.addOblig(&Oblig{Name: fr.oblName("inv.init", fmt.Sprintf("loop%d.%s", li.ordinal, cl.Label)), Kind: "inv.init", Func: r.eng.fnName(fr.fn), Label: cl.Label, Tags: cl.Tags, Text: cl.Text, Guard: entrySt.guard, Goal: g})
		}
	}
	// 2. discovery of the loop's write set
	snap := fr.snapshot()
	mark := len(r.ctx.defs)
	r.dry++
	r.heap.pushLog()
	dst := entrySt.clone()
	for phi, v := range entryPhi {
		fr.setVal(phi, v)
	}
	li.iter = zero
	derr := fr.runBlocks(li.blocks, b, dst)
	log := r.heap.popLog()
	r.dry--
	fr.restore(snap)
	if derr != nil {
		return nil, derr
	}
	// 3. arbitrary-iteration state
	hst := entrySt.clone()
	lr := &loopRun{entry: entrySt, log: log, frameS: map[string][]string{}, entryPhi: entryPhi}
	fresh := map[*ssa.Phi]Value{}
	for _, in := range b.Instrs {
		phi, ok := in.(*ssa.Phi)
		if !ok {
			break
		}
		v, err := r.freshValue(phi.Name()+"."+phi.Comment, phi.Type())
		if err != nil {
			return nil, err
		}
		if s, ok := v.(*Sc); ok {
			s.Ty = phi.Type()
		}
		fresh[phi] = v
		fr.setVal(phi, v)
	}
	iter := intV(r.ctx.fresh("iter", sBV(64)))
	li.iter = iter
	lr.iter = iter
	hst.alloc = r.ctx.fresh("alloc", sRef)
	r.assume(hst, refLe(entrySt.alloc, hst.alloc))
	r.assume(hst, "(bvsle #x0000000000000000 "+iter.T+")")
	var comps []string
	for c := range log {
		comps = append(comps, c)
	}
	sort.Strings(comps)
	for _, c := range comps {
		srt := r.heap.comps[c]
		old := r.heap.get(entrySt, c, srt)
		nw := r.ctx.fresh(c, srt)
		hst.heap[c] = nw
		// auto frame: objects that existed before the loop and are not written through a
		// loop-invariant reference keep their value
		var S []string
		for ref := range log[c] {
			if ref == "*" || ref == "$fresh" || r.allocRefs[ref] {
				continue
			}
			inv := true
			for _, t := range tokens(ref) {
				if i, ok := r.ctx.idx[t]; ok && i >= mark {
					inv = false
					break
				}
			}
			if inv {
				S = append(S, ref)
			}
		}
		sort.Strings(S)
		lr.frameS[c] = S
		onlyLocal := true
		for ref := range log[c] {
			if ref != "$fresh" && !r.allocRefs[ref] {
				onlyLocal = false
			}
		}
		if onlyLocal {
			// written only through objects allocated by this run: nothing that existed
			// before the function can change, and the obligation would be trivial
			if lr.skipFrame == nil {
				lr.skipFrame = map[string]bool{}
			}
			lr.skipFrame[c] = true
		}
		if fr.contract != nil && fr.contract.Opts["noloopframe"] && fr.depth == 0 {
			// the contract asks for no automatic loop frame: nothing is assumed about the
			// components written in the loop beyond its invariants, and nothing is to be proved
			if lr.skipFrame == nil {
				lr.skipFrame = map[string]bool{}
			}
			lr.skipFrame[c] = true
			continue
		}
		r.assume(hst, frameFormula(nw, old, entrySt.alloc, S))
	}
	for _, in := range b.Instrs {
		phi, ok := in.(*ssa.Phi)
		if !ok {
			break
		}
		r.assume(hst, r.typeInv(hst, fresh[phi]))
	}
	names := fr.phiNames(li, fresh, iter)
	for _, cl := range invs {
		lenv := &evalEnv{fr: fr, st: hst, old: fr.entry, names: names, loopEntry: entrySt, loopEntryNames: fr.phiNames(li, entryPhi, zero)}
		g, err := fr.evalBoolEnv(cl.E, lenv)
		if err != nil {
			return nil, fmt.Errorf("loop %d invariant %s: %v", li.ordinal, cl.Label, err)
		}
		r.assume(hst, g)
		fr.rebindFromExpr(cl.E, hst, lenv)
	}
	if dec != nil {
		v, err := fr.evalExpr(dec.E, &evalEnv{fr: fr, st: hst, old: fr.entry, names: names})
		if err != nil {
			return nil, fmt.Errorf("loop %d decreases: %v", li.ordinal, err)
		}
		lr.variant = v
	}
	lr.header = hst
	loopRuns[li] = lr
	return hst, nil
}

func frameFormula(nw, old, allocBound string, except []string) string {
	conds := []string{refLt("r!f", allocBound)}
	for _, x := range except {
		conds = append(conds, not(eq("r!f", x)))
	}
	return fmt.Sprintf("(forall ((r!f %s)) (! (=> %s (= (select %s r!f) (select %s r!f))) :pattern ((select %s r!f))))", sRef, and(conds...), nw, old, nw)
}

func (fr *Frame) backEdge(li *loopInfo, from *ssa.BasicBlock, st *State) error {
	r := fr.run
	if r.dry > 0 {
		return nil
	}
	lr := loopRuns[li]
	if lr == nil {
		return nil
	}
	pi := -1
	for i, p := range li.header.Preds {
		if p == from {
			pi = i
		}
	}
	vals := map[*ssa.Phi]Value{}
	for _, in := range li.header.Instrs {
		phi, ok := in.(*ssa.Phi)
		if !ok {
			break
		}
		v, err := fr.value(phi.Edges[pi])
		if err != nil {
			return err
		}
		vals[phi] = v
	}
	next := intV("(bvadd " + lr.iter.T + " #x0000000000000001)")
	names := fr.phiNames(li, vals, next)
	invs, dec := fr.loopClauses(li)
	// ghost cuts at the end of the body: proved once, then assumed for the step obligations
	if as := fr.loopAsserts(li); len(as) > 0 {
		hdr := map[*ssa.Phi]Value{}
		for _, in := range li.header.Instrs {
			phi, ok := in.(*ssa.Phi)
			if !ok {
				break
			}
			hdr[phi] = fr.vals[phi]
		}
		st = st.clone()
		save := fr.cur
		fr.cur = from
		for _, cl := range as {
			env := &evalEnv{fr: fr, st: st, old: fr.entry, names: names, preNames: fr.phiNames(li, hdr, lr.iter), loopHead: lr.header, loopEntry: lr.entry, loopEntryNames: fr.phiNames(li, lr.entryPhi, intV(bvLit(0, 64)))}
			g, err := fr.evalBoolEnv(cl.E, env)
			if err != nil {
				return fmt.Errorf("loop %d assert %s: %v", li.ordinal, cl.Label, err)
			}
			r.addOblig(&Oblig{Name: fr.oblName("assert", fmt.Sprintf("loop%d.%s", li.ordinal, cl.Label)), Kind: "assert", Func: r.eng.fnName(fr.fn), Label: cl.Label, Tags: cl.Tags, Text: cl.Text, Guard: st.guard, Goal: g})
			r.assume(st, g)
		}
		fr.cur = save
	}
	for _, cl := range invs {
		g, err := fr.evalBoolEnv(cl.E, &evalEnv{fr: fr, st: st, old: fr.entry, names: names, loopEntry: lr.entry, loopEntryNames: fr.phiNames(li, lr.entryPhi, intV(bvLit(0, 64)))})
		if err != nil {
			return fmt.Errorf("loop %d invariant %s: %v", li.ordinal, cl.Label, err)
		}
		r.addOblig(&Oblig{Name: fr.oblName("inv.step", fmt.Sprintf("loop%d.%s", li.ordinal, cl.Label)), Kind: "inv.step", Func: r.eng.fnName(fr.fn), Label: cl.Label, Tags: cl.Tags, Text: cl.Text, Guard: st.guard, Goal: g})
	}
	if dec != nil && lr.variant != nil && r.active(dec.Tags) {
		v, err := fr.evalExpr(dec.E, &evalEnv{fr: fr, st: st, old: fr.entry, names: names})
		if err != nil {
			return err
		}
		a, ok1 := lr.variant.(*Sc)
		bb, ok2 := v.(*Sc)
		if !ok1 || !ok2 {
			return fmt.Errorf("decreases must be an integer")
		}
		goal := and("(bvsle #x0000000000000000 "+a.T+")", "(bvslt "+bb.T+" "+a.T+")")
		r.addOblig(&Oblig{Name: fr.oblName("dec", fmt.Sprintf("loop%d", li.ordinal)), Kind: "dec", Func: r.eng.fnName(fr.fn), Label: "decreases", Tags: dec.Tags, Text: dec.Text, Guard: st.guard, Goal: goal})
	}
	// auto-frame preservation
	var comps []string
	for c := range lr.log {
		comps = append(comps, c)
	}
	sort.Strings(comps)
	for _, c := range comps {
		if lr.skipFrame[c] {
			continue
		}
		srt := r.heap.comps[c]
		old := r.heap.get(lr.entry, c, srt)
		cur := r.heap.get(st, c, srt)
		goal := frameFormula(cur, old, lr.entry.alloc, lr.frameS[c])
		r.addOblig(&Oblig{Name: fr.oblName("inv.step", fmt.Sprintf("loop%d.autoframe.%s", li.ordinal, c)), Kind: "inv.step", Func: r.eng.fnName(fr.fn), Label: "autoframe." + c, Text: "objects allocated before the loop and not written through a loop-invariant reference are unchanged in " + c, Guard: st.guard, Goal: goal})
	}
	return nil
}

// ---------------------------------------------------------------------------
// Instructions

func (fr *Frame) execBlock(b *ssa.BasicBlock, st *State) error {
	r := fr.run
	fr.cur = b
	for _, in := range b.Instrs {
		switch x := in.(type) {
		case *ssa.Phi:
			// handled at block entry
		case *ssa.DebugRef:
		case *ssa.Alloc:
			if x.Comment == "varargs" {
				// the argument array of a variadic call (fmt.Errorf): contents are not modelled
				at := x.Type().(*types.Pointer).Elem()
				fr.setVal(x, &AddrV{Kind: "arr", Ref: refLit(0xfffe * refStride), Ty: at, N: at.Underlying().(*types.Array).Len()})
				varargAllocs[x] = true
				continue
			}
			v, err := fr.execAlloc(st, x.Type().(*types.Pointer).Elem(), x.Type())
			if err != nil {
				return err
			}
			fr.setVal(x, v)
		case *ssa.FieldAddr:
			base, err := fr.value(x.X)
			if err != nil {
				return err
			}
			v, err := fr.fieldAddr(st, base, x.X.Type(), x.Field, x)
			if err != nil {
				return err
			}
			fr.setVal(x, v)
		case *ssa.Field:
			base, err := fr.value(x.X)
			if err != nil {
				return err
			}
			sv, ok := base.(*StructV)
			if !ok {
				return r.unsupported("Field of %T", base)
			}
			fr.setVal(x, sv.F[x.Field])
		case *ssa.IndexAddr:
			if a, ok := x.X.(*ssa.Alloc); ok && varargAllocs[a] {
				fr.setVal(x, &AddrV{Kind: "vararg"})
				continue
			}
			v, err := fr.indexAddr(st, x)
			if err != nil {
				return err
			}
			fr.setVal(x, v)
		case *ssa.UnOp:
			if key, ok := fr.readOrd[x]; ok && fr.contract != nil && fr.depth == 0 {
				if err := fr.ghostAt("$read:"+key, st); err != nil {
					return err
				}
			}
			v, err := fr.unop(st, x)
			if err != nil {
				return err
			}
			fr.setVal(x, v)
		case *ssa.BinOp:
			a, err := fr.value(x.X)
			if err != nil {
				return err
			}
			bb, err := fr.value(x.Y)
			if err != nil {
				return err
			}
			v, err := fr.binop(st, x.Op, a, bb, x)
			if err != nil {
				return err
			}
			fr.setVal(x, fr.nameValue(x.Name(), v))
		case *ssa.Store:
			addr, err := fr.value(x.Addr)
			if err != nil {
				return err
			}
			val, err := fr.value(x.Val)
			if err != nil {
				return err
			}
			switch a := addr.(type) {
			case *AddrV:
				if a.Kind == "vararg" {
					continue
				}
				if err := r.store(st, a, val); err != nil {
					return err
				}
			case *Sc:
				t := x.Addr.Type().(*types.Pointer).Elem()
				if !isStruct(t) {
					return r.unsupported("store through opaque pointer to %s", t)
				}
				fr.nilCheck(st, a, x)
				if err := r.storeStruct(st, a.T, t, val); err != nil {
					return err
				}
			default:
				return r.unsupported("store to %T", addr)
			}
		case *ssa.Convert:
			a, err := fr.value(x.X)
			if err != nil {
				return err
			}
			v, err := fr.convert(a, x.X.Type(), x.Type())
			if err != nil {
				return err
			}
			fr.setVal(x, v)
		case *ssa.ChangeType:
			a, err := fr.value(x.X)
			if err != nil {
				return err
			}
			if s, ok := a.(*Sc); ok {
				c := *s
				c.Ty = x.Type()
				a = &c
			}
			fr.setVal(x, a)
		case *ssa.ChangeInterface:
			a, err := fr.value(x.X)
			if err != nil {
				return err
			}
			fr.setVal(x, a)
		case *ssa.MakeInterface:
			a, err := fr.value(x.X)
			if err != nil {
				return err
			}
			fr.setVal(x, fr.makeInterface(st, a, x.X.Type()))
		case *ssa.TypeAssert:
			v, err := fr.typeAssert(st, x)
			if err != nil {
				return err
			}
			fr.setVal(x, v)
		case *ssa.Extract:
			a, err := fr.value(x.Tuple)
			if err != nil {
				return err
			}
			tv, ok := a.(*TupleV)
			if !ok || x.Index >= len(tv.E) {
				return r.unsupported("extract from %T", a)
			}
			fr.setVal(x, tv.E[x.Index])
		case *ssa.Slice:
			v, err := fr.sliceOp(st, x)
			if err != nil {
				return err
			}
			fr.setVal(x, v)
		case *ssa.MakeSlice:
			ln, err := fr.value(x.Len)
			if err != nil {
				return err
			}
			cp, err := fr.value(x.Cap)
			if err != nil {
				return err
			}
			v, err := fr.makeSlice(st, x.Type().Underlying().(*types.Slice).Elem(), toInt64(ln.(*Sc)), toInt64(cp.(*Sc)), x)
			if err != nil {
				return err
			}
			fr.setVal(x, v)
		case *ssa.MakeMap:
			ref := r.newRef(st)
			mt := x.Type().Underlying().(*types.Map)
			if err := r.mapInit(st, mt, ref); err != nil {
				return err
			}
			fr.setVal(x, &Sc{T: ref, K: kRef, W: 32, Ty: x.Type()})
		case *ssa.MapUpdate:
			if err := fr.mapUpdate(st, x); err != nil {
				return err
			}
		case *ssa.Lookup:
			v, err := fr.lookup(st, x)
			if err != nil {
				return err
			}
			fr.setVal(x, v)
		case *ssa.Range:
			a, err := fr.value(x.X)
			if err != nil {
				return err
			}
			if _, ok := x.X.Type().Underlying().(*types.Map); !ok {
				return r.unsupported("range over %s", x.X.Type())
			}
			fr.setVal(x, a)
		case *ssa.Next:
			v, err := fr.mapNext(st, x)
			if err != nil {
				return err
			}
			fr.setVal(x, v)
		case *ssa.MakeClosure:
			var bind []Value
			for _, bv := range x.Bindings {
				v, err := fr.value(bv)
				if err != nil {
					return err
				}
				bind = append(bind, v)
			}
			fv := r.funcValue(x.Fn.(*ssa.Function), bind).(*Sc)
			c := *fv
			c.T = r.newRef(st)
			c.Ty = x.Type()
			fr.setVal(x, &c)
		case *ssa.Call:
			v, err := fr.call(st, &x.Call, x)
			if err != nil {
				return err
			}
			fr.setVal(x, v)
		case *ssa.Defer:
			var args []Value
			for _, a := range x.Call.Args {
				v, err := fr.value(a)
				if err != nil {
					return err
				}
				args = append(args, v)
			}
			var fnv Value
			if !x.Call.IsInvoke() {
				v, err := fr.value(x.Call.Value)
				if err != nil {
					return err
				}
				fnv = v
			}
			fr.defers = append(fr.defers, deferRec{call: &x.Call, guard: st.guard, args: args, fnv: fnv})
		case *ssa.RunDefers:
			if err := fr.runDefers(st); err != nil {
				return err
			}
		case *ssa.If:
			c, err := fr.value(x.Cond)
			if err != nil {
				return err
			}
			cs := c.(*Sc)
			if os.Getenv("GOVC_DEBUG_BW") != "" && r.dry == 0 && strings.Contains(fr.fn.String(), "BitsWriterBatch") && cs.T != "true" && cs.T != "false" {
				fmt.Fprintf(os.Stderr, "batch guard not literal in %s: %s := %s\n", fr.prefix, cs.T, r.ctx.defText(cs.T))
				for _, tk := range tokens(r.ctx.defText(cs.T)) {
					if strings.HasPrefix(tk, "t1.tag") {
						fmt.Fprintf(os.Stderr, "    %s\n", r.ctx.defText(tk))
					}
				}
			}
			if cs.T != "false" {
				tS := st.clone()
				r.assume(tS, cs.T)
				if err := fr.edge(b, b.Succs[0], tS); err != nil {
					return err
				}
			}
			if cs.T != "true" {
				fS := st.clone()
				r.assume(fS, not(cs.T))
				if err := fr.edge(b, b.Succs[1], fS); err != nil {
					return err
				}
			}
		case *ssa.Jump:
			if err := fr.edge(b, b.Succs[0], st); err != nil {
				return err
			}
		case *ssa.Return:
			var vals []Value
			for _, rv := range x.Results {
				v, err := fr.value(rv)
				if err != nil {
					return err
				}
				vals = append(vals, v)
			}
			fr.rets = append(fr.rets, retRec{st: st.clone(), vals: vals, pos: posLabel(r, x.Pos()), at: x.Pos()})
		case *ssa.Panic:
			if r.safety {
				r.addOblig(&Oblig{Name: fr.oblName("safe.panic", posLabel(r, x.Pos())), Kind: "safe.panic", Func: r.eng.fnName(fr.fn), Text: "explicit panic is unreachable", Guard: st.guard, Goal: "false"})
			}
		case *ssa.Go, *ssa.Send, *ssa.Select:
			return r.unsupported("concurrency instruction %T in %s", in, fr.fn.Name())
		default:
			return r.unsupported("instruction %T in %s", in, fr.fn.Name())
		}
	}
	return nil
}

// ghostAt proves and then assumes the ghost assertions anchored at key ("$read:T.f#k").
func (fr *Frame) ghostAt(key string, st *State) error {
	r := fr.run
	var facts []string
	var cls []*Clause
	hard := false
	for _, cl := range fr.contract.AtCall {
		if fmt.Sprintf("%s#%d", cl.Call, cl.CallK) != key || !r.active(cl.Tags) {
			continue
		}
		g, err := fr.evalBool(cl.E, st, nil)
		if err != nil {
			return fmt.Errorf("at %s %s: %v", key, cl.Label, err)
		}
		if cl.Kind == "assert" || cl.Kind == "cut" {
			r.addOblig(&Oblig{Name: fr.oblName("assert", strings.TrimPrefix(key, "$read:")+"."+cl.Label), Kind: "assert", Func: r.eng.fnName(fr.fn), Label: cl.Label, Tags: cl.Tags, Text: cl.Text, Guard: st.guard, Goal: g})
		}
		if cl.Kind == "cut" {
			hard = true
		}
		facts = append(facts, g)
		cls = append(cls, cl)
	}
	if hard {
		// a hard cut forgets the path so far: what is known afterwards is the function's
		// preconditions and the facts proved at the cut (weaker assumptions: sound)
		st.guard = r.ctx.define("g", sBool, and(append([]string{fr.entryGuard}, facts...)...))
	} else {
		for _, g := range facts {
			r.assume(st, g)
		}
	}
	for _, cl := range cls {
		fr.rebindCut(cl.E, st)
	}
	return nil
}

// rebindCut: after a cut has been proved and assumed, conjuncts of the form  p.f == e  or
// wN(w) == e  also rebind the location to e, so that later obligations see the
// specification's expression instead of the merged history.
func (fr *Frame) rebindCut(e Expr, st *State) {
	if c, ok := e.(*ECall); ok {
		if _, isMacro := fr.run.eng.specs.Macros[c.Fn]; isMacro {
			fr.rebindFromExpr(e, st, &evalEnv{fr: fr, st: st, old: fr.entry})
		}
		return
	}
	b, ok := e.(*EBin)
	if !ok {
		return
	}
	if b.Op == "&&" {
		fr.rebindCut(b.X, st)
		fr.rebindCut(b.Y, st)
		return
	}
	if b.Op != "==" {
		return
	}
	env := &evalEnv{fr: fr, st: st, old: fr.entry}
	switch lhs := b.X.(type) {
	case *ESel:
		base, err1 := fr.evalExpr(lhs.X, env)
		rhs, err2 := fr.evalExpr(b.Y, env)
		if err1 == nil && err2 == nil {
			if u, ok := rhs.(*UInt); ok {
				if cur, err := fr.selectField(base, lhs.Name, env); err == nil {
					if cs, ok := cur.(*Sc); ok && cs.K == kBV {
						rhs = bv(bvLit(u.V, cs.W), cs.W, cs.Signed)
					}
				}
			}
			fr.rebind(st, base, lhs.Name, rhs)
		}
	case *ECall:
		if lhs.Fn == "wN" && len(lhs.Args) == 1 {
			wv, err1 := fr.evalExpr(lhs.Args[0], env)
			rhs, err2 := fr.evalExpr(b.Y, env)
			if err1 != nil || err2 != nil {
				return
			}
			ws, ok := wv.(*Sc)
			rs, ok2 := rhs.(*Sc)
			if !ok || !ok2 || ws.Ty == nil || rs.K != kBV || rs.W != 64 {
				return
			}
			r := fr.run
			stT, u := r.bwStruct(ws.Ty)
			fw := fieldByName(u, "w")
			sinkRef := r.ctx.selectOf(r.heap.get(st, fieldComp(stT, fw)+".ref", sArr(sRef, sRef)), ws.T)
			h := r.heap.get(st, compSinkN, sortSinkN)
			r.heap.setQuiet(st, compSinkN, sortSinkN, sto(h, sinkRef, r.ctx.define("cut", sBV(64), rs.T)))
		}
	}
}

// rebindFromExpr: for every top-level conjunct of an assumed formula that has the form
// p.f == <integer literal>, store the literal at the location, so that later code sees a
// constant (used to constant-fold the bit writer's alignment state).
func (fr *Frame) rebindFromExpr(e Expr, st *State, env *evalEnv) {
	switch x := e.(type) {
	case *EBin:
		switch x.Op {
		case "&&":
			fr.rebindFromExpr(x.X, st, env)
			fr.rebindFromExpr(x.Y, st, env)
		case "==":
			sel, ok := x.X.(*ESel)
			lit, ok2 := x.Y.(*EInt)
			if !ok || !ok2 {
				return
			}
			base, err := fr.evalExpr(sel.X, env)
			if err != nil {
				return
			}
			// type the literal after the field
			cur, err := fr.selectField(base, sel.Name, env)
			if err != nil {
				return
			}
			cs, ok := cur.(*Sc)
			if !ok || cs.K != kBV {
				return
			}
			v := lit.V
			if lit.Neg {
				v = uint64(-int64(lit.V))
			}
			fr.rebind(st, base, sel.Name, bv(bvLit(v, cs.W), cs.W, cs.Signed))
		}
	case *ECall:
		m, ok := fr.run.eng.specs.Macros[x.Fn]
		if !ok || len(x.Args) != len(m.Params) {
			return
		}
		nn := map[string]Value{}
		for k, v := range env.names {
			nn[k] = v
		}
		for i, p := range m.Params {
			v, err := fr.evalExpr(x.Args[i], env)
			if err != nil {
				return
			}
			nn[p] = v
		}
		sub := *env
		sub.names = nn
		sub.letCache = nil
		fr.rebindFromExpr(m.Body, st, &sub)
	}
}

// rebind stores v into field name of *base when both are simple scalars.
func (fr *Frame) rebind(st *State, base Value, name string, v Value) {
	r := fr.run
	p, ok := base.(*Sc)
	if !ok || p.K != kRef || p.Ty == nil {
		return
	}
	pt, ok := p.Ty.Underlying().(*types.Pointer)
	if !ok {
		return
	}
	u, ok := pt.Elem().Underlying().(*types.Struct)
	if !ok {
		return
	}
	for i := 0; i < u.NumFields(); i++ {
		f := u.Field(i)
		if f.Name() != name {
			continue
		}
		ls, err := leavesOf(f.Type())
		if err != nil || len(ls) != 1 {
			return
		}
		s, ok := v.(*Sc)
		if !ok || s.sort() != ls[0].sort {
			return
		}
		nm := fieldComp(pt.Elem(), f)
		srt := sArr(sRef, ls[0].sort)
		h := r.heap.get(st, nm, srt)
		r.heap.setQuiet(st, nm, srt, sto(h, p.T, r.ctx.define("cut", ls[0].sort, s.T)))
	}
}

func posLabel(r *Run, p token.Pos) string {
	if !p.IsValid() {
		return "?"
	}
	pos := r.eng.prog.Fset.Position(p)
	f := pos.Filename
	if i := strings.LastIndex(f, "/"); i >= 0 {
		f = f[i+1:]
	}
	return fmt.Sprintf("%s:%d", f, pos.Line)
}

func (fr *Frame) edge(from, to *ssa.BasicBlock, st *State) error {
	if to.Dominates(from) {
		if li := fr.loops[to]; li != nil {
			return fr.backEdge(li, from, st)
		}
	}
	k := [2]int{from.Index, to.Index}
	if old := fr.edgeSt[k]; old != nil {
		// both branches of an If lead to the same block
		st = fr.run.heap.merge([]*State{old, st})
	}
	fr.edgeSt[k] = st
	return nil
}

func (fr *Frame) safety(st *State, kind string, in ssa.Instruction, cond string, text string) {
	r := fr.run
	if r.safety && r.dry == 0 {
		r.addOblig(&Oblig{Name: fr.oblName(kind, posLabel(r, in.Pos())), Kind: kind, Func: r.eng.fnName(fr.fn), Text: text, Guard: st.guard, Goal: cond})
	}
	r.assume(st, cond)
}

func (fr *Frame) nilCheck(st *State, p *Sc, in ssa.Instruction) {
	fr.safety(st, "safe.nil", in, not(eq(p.T, refLit(0))), "nil pointer dereference")
}

func (fr *Frame) execAlloc(st *State, t types.Type, pt types.Type) (Value, error) {
	r := fr.run
	ref := r.newRef(st)
	if isStruct(t) {
		if err := r.zeroStruct(st, ref, t); err != nil {
			return nil, err
		}
		return &Sc{T: ref, K: kRef, W: 32, Ty: pt}, nil
	}
	if at, ok := t.Underlying().(*types.Array); ok {
		if err := r.zeroArray(st, at.Elem(), ref); err != nil {
			return nil, err
		}
		return &AddrV{Kind: "arr", Ref: ref, Ty: t, N: at.Len()}, nil
	}
	a := &AddrV{Kind: "cell", Comp: "C." + typeKey(t), Ref: ref, Ty: t}
	z, err := r.zeroValue(t)
	if err != nil {
		return nil, err
	}
	if err := r.store(st, a, z); err != nil {
		return nil, err
	}
	return a, nil
}

func (r *Run) zeroArray(st *State, elem types.Type, ref string) error {
	if isStruct(elem) {
		return r.unsupported("array of struct %s", elem)
	}
	ls, err := leavesOf(elem)
	if err != nil {
		return r.unsupported("%v", err)
	}
	for _, l := range ls {
		name := elemComp(elem) + l.suffix
		srt := sArr(sRef, sArr(sBV(64), l.sort))
		h := r.heap.get(st, name, srt)
		z := zeroLeaf(l)
		if l.k == kStr {
			z = r.ctx.strConst("")
		}
		r.heap.set(st, name, srt, sto(h, ref, fmt.Sprintf("((as const %s) %s)", sArr(sBV(64), l.sort), z)), ref)
	}
	return nil
}

func (fr *Frame) fieldAddr(st *State, base Value, ptrT types.Type, field int, in ssa.Instruction) (Value, error) {
	r := fr.run
	p, ok := base.(*Sc)
	if !ok || p.K != kRef {
		return nil, r.unsupported("FieldAddr on %T", base)
	}
	structT := ptrT.Underlying().(*types.Pointer).Elem()
	u := structT.Underlying().(*types.Struct)
	f := u.Field(field)
	if in != nil {
		fr.nilCheck(st, p, in)
	}
	if isStruct(f.Type()) {
		return &Sc{T: r.fldRefT(structT, f, p.T), K: kRef, W: 32, Ty: types.NewPointer(f.Type())}, nil
	}
	if at, ok := f.Type().Underlying().(*types.Array); ok {
		return &AddrV{Kind: "arr", Ref: r.fldRefT(structT, f, p.T), Ty: f.Type(), N: at.Len()}, nil
	}
	return &AddrV{Kind: "field", Comp: fieldComp(structT, f), Ref: p.T, Ty: f.Type()}, nil
}

func toInt64(s *Sc) string {
	if s.W == 64 {
		return s.T
	}
	if s.Signed {
		return fmt.Sprintf("((_ sign_extend %d) %s)", 64-s.W, s.T)
	}
	return fmt.Sprintf("((_ zero_extend %d) %s)", 64-s.W, s.T)
}

func (fr *Frame) indexAddr(st *State, x *ssa.IndexAddr) (Value, error) {
	r := fr.run
	base, err := fr.value(x.X)
	if err != nil {
		return nil, err
	}
	iv, err := fr.value(x.Index)
	if err != nil {
		return nil, err
	}
	idx := toInt64(iv.(*Sc))
	switch b := base.(type) {
	case *SliceV:
		fr.safety(st, "safe.idx", x, and("(bvsle #x0000000000000000 "+idx+")", "(bvslt "+idx+" "+b.Len+")"), "index out of range")
		return &AddrV{Kind: "elem", Ref: b.Base, Idx: r.ctx.define("ix", sBV(64), "(bvadd "+b.Off+" "+idx+")"), Ty: b.Elem}, nil
	case *AddrV:
		if b.Kind == "arr" {
			et := b.Ty.Underlying().(*types.Array).Elem()
			fr.safety(st, "safe.idx", x, and("(bvsle #x0000000000000000 "+idx+")", "(bvslt "+idx+" "+bvLit(uint64(b.N), 64)+")"), "index out of range")
			return &AddrV{Kind: "elem", Ref: b.Ref, Idx: idx, Ty: et}, nil
		}
	}
	return nil, r.unsupported("IndexAddr on %T", base)
}

func (fr *Frame) unop(st *State, x *ssa.UnOp) (Value, error) {
	r := fr.run
	a, err := fr.value(x.X)
	if err != nil {
		return nil, err
	}
	switch x.Op {
	case token.MUL: // load
		if g, ok := x.X.(*ssa.Global); ok {
			if v, ok := r.constGlobal(st, g); ok {
				return v, nil
			}
		}
		switch p := a.(type) {
		case *AddrV:
			if p.Kind == "arr" {
				return nil, r.unsupported("load of whole array")
			}
			v, err := r.load(st, p)
			if err != nil {
				return nil, err
			}
			r.assume(st, r.typeInv(st, v))
			return fr.nameValue(x.Name(), v), nil
		case *Sc:
			t := x.X.Type().Underlying().(*types.Pointer).Elem()
			if !isStruct(t) {
				return nil, r.unsupported("load through opaque pointer to %s", t)
			}
			fr.nilCheck(st, p, x)
			v, err := r.loadStruct(st, p.T, t)
			if err != nil {
				return nil, err
			}
			r.assume(st, r.typeInv(st, v))
			return v, nil
		}
		return nil, r.unsupported("load from %T", a)
	case token.NOT:
		return boolV(not(a.(*Sc).T)), nil
	case token.SUB:
		s := a.(*Sc)
		if s.K == kF64 {
			return &Sc{T: "(fp.neg " + s.T + ")", K: kF64, W: 64, Signed: true}, nil
		}
		return bv("(bvneg "+s.T+")", s.W, s.Signed), nil
	case token.XOR:
		s := a.(*Sc)
		return bv("(bvnot "+s.T+")", s.W, s.Signed), nil
	}
	return nil, r.unsupported("unary op %s", x.Op)
}

// constGlobal: package-level error sentinels and pointer variables are treated as
// constants (no function of the package assigns to a package-level variable outside
// init; checked by the global-store scan).
func (r *Run) constGlobal(st *State, g *ssa.Global) (Value, bool) {
	t := g.Type().(*types.Pointer).Elem()
	name := g.RelString(nil)
	switch t.Underlying().(type) {
	case *types.Interface:
		if types.Identical(t, types.Universe.Lookup("error").Type()) {
			ref := r.globalRef("errval:" + name)
			return &IfaceV{Tag: bvLit(0xfff0, 16), Ref: ref}, true
		}
	case *types.Pointer:
		ref := r.globalRef("ptrval:" + name)
		return &Sc{T: ref, K: kRef, W: 32, Ty: t}, true
	}
	return nil, false
}

func (fr *Frame) makeInterface(st *State, a Value, t types.Type) Value {
	r := fr.run
	tag := r.tagOf(t)
	switch x := a.(type) {
	case *Sc:
		if x.K == kRef {
			// nil pointer in interface is still a non-nil interface
			return &IfaceV{Tag: tag, Ref: x.T, Conc: a, ConcTy: t}
		}
	}
	return &IfaceV{Tag: tag, Ref: r.newRef(st), Conc: a, ConcTy: t}
}

func (fr *Frame) typeAssert(st *State, x *ssa.TypeAssert) (Value, error) {
	r := fr.run
	a, err := fr.value(x.X)
	if err != nil {
		return nil, err
	}
	iv, ok := a.(*IfaceV)
	if !ok {
		return nil, r.unsupported("type assert on %T", a)
	}
	var okT string
	var val Value
	if _, isIface := x.AssertedType.Underlying().(*types.Interface); isIface {
		fn := "implements." + typeKey(x.AssertedType)
		r.declareOnce(fmt.Sprintf("(declare-fun %s (%s) Bool)", fn, sBV(16)))
		okT = and("("+fn+" "+iv.Tag+")", not(eq(iv.Tag, bvLit(0, 16))))
		val = iv
	} else {
		okT = eq(iv.Tag, r.tagOf(x.AssertedType))
		if iv.Conc != nil && types.Identical(iv.ConcTy, x.AssertedType) {
			val = iv.Conc
		} else {
			switch x.AssertedType.Underlying().(type) {
			case *types.Pointer, *types.Map, *types.Signature:
				val = &Sc{T: iv.Ref, K: kRef, W: 32, Ty: x.AssertedType}
			default:
				v, err := r.freshValue("ta", x.AssertedType)
				if err != nil {
					return nil, err
				}
				val = v
			}
		}
	}
	if x.CommaOk {
		return &TupleV{E: []Value{val, boolV(okT)}}, nil
	}
	fr.safety(st, "safe.typeassert", x, okT, "type assertion")
	return val, nil
}

func (r *Run) declareOnce(line string) {
	for _, p := range r.ctx.prelude {
		if p == line {
			return
		}
	}
	r.ctx.prelude = append(r.ctx.prelude, line)
}

func (fr *Frame) sliceOp(st *State, x *ssa.Slice) (Value, error) {
	r := fr.run
	base, err := fr.value(x.X)
	if err != nil {
		return nil, err
	}
	get := func(v ssa.Value) (string, error) {
		if v == nil {
			return "", nil
		}
		a, err := fr.value(v)
		if err != nil {
			return "", err
		}
		return toInt64(a.(*Sc)), nil
	}
	lo, err := get(x.Low)
	if err != nil {
		return nil, err
	}
	hi, err := get(x.High)
	if err != nil {
		return nil, err
	}
	mx, err := get(x.Max)
	if err != nil {
		return nil, err
	}
	var sv *SliceV
	switch b := base.(type) {
	case *SliceV:
		sv = b
	case *AddrV:
		if b.Kind != "arr" {
			return nil, r.unsupported("slice of %s pointer", b.Kind)
		}
		n := bvLit(uint64(b.N), 64)
		sv = &SliceV{Base: b.Ref, Off: bvLit(0, 64), Len: n, Cap: n, Elem: b.Ty.Underlying().(*types.Array).Elem()}
	default:
		return nil, r.unsupported("slice of %T", base)
	}
	if lo == "" {
		lo = bvLit(0, 64)
	}
	if hi == "" {
		hi = sv.Len
	}
	capEnd := sv.Cap
	if mx != "" {
		capEnd = mx
	}
	cond := and("(bvsle #x0000000000000000 "+lo+")", "(bvsle "+lo+" "+hi+")", "(bvsle "+hi+" "+capEnd+")", "(bvsle "+capEnd+" "+sv.Cap+")")
	fr.safety(st, "safe.slice", x, cond, "slice bounds out of range")
	out := &SliceV{Base: sv.Base,
		Off:  r.ctx.define("off", sBV(64), "(bvadd "+sv.Off+" "+lo+")"),
		Len:  r.ctx.define("len", sBV(64), "(bvsub "+hi+" "+lo+")"),
		Cap:  r.ctx.define("cap", sBV(64), "(bvsub "+capEnd+" "+lo+")"),
		Elem: sv.Elem}
	return out, nil
}

func (fr *Frame) makeSlice(st *State, elem types.Type, ln, cp string, in ssa.Instruction) (Value, error) {
	r := fr.run
	if in != nil {
		fr.safety(st, "safe.make", in, and("(bvsle #x0000000000000000 "+ln+")", "(bvsle "+ln+" "+cp+")", "(bvslt "+cp+" #x0001000000000000)"), "makeslice: len out of range")
	}
	ref := r.newRef(st)
	if err := r.zeroArray(st, elem, ref); err != nil {
		return nil, err
	}
	return &SliceV{Base: ref, Off: bvLit(0, 64), Len: ln, Cap: cp, Elem: elem}, nil
}

// ---------------------------------------------------------------------------
// Arithmetic

func (fr *Frame) binop(st *State, op token.Token, a, b Value, in ssa.Instruction) (Value, error) {
	r := fr.run
	switch x := a.(type) {
	case *IfaceV:
		y, ok := b.(*IfaceV)
		if !ok {
			return nil, r.unsupported("iface compare with %T", b)
		}
		e := and(eq(x.Tag, y.Tag), eq(x.Ref, y.Ref))
		if op == token.EQL {
			return boolV(e), nil
		} else if op == token.NEQ {
			return boolV(not(e)), nil
		}
		return nil, r.unsupported("iface op %s", op)
	case *SliceV:
		y, ok := b.(*SliceV)
		if !ok {
			return nil, r.unsupported("slice compare")
		}
		// only comparison with nil is legal in Go
		_ = y
		e := eq(x.Base, refLit(0))
		if op == token.EQL {
			return boolV(e), nil
		} else if op == token.NEQ {
			return boolV(not(e)), nil
		}
		return nil, r.unsupported("slice op %s", op)
	case *Sc:
		y, ok := b.(*Sc)
		if !ok {
			return nil, r.unsupported("binop operand %T", b)
		}
		return fr.scalarOp(st, op, x, y, in)
	}
	return nil, r.unsupported("binop on %T", a)
}

func (fr *Frame) scalarOp(st *State, op token.Token, x, y *Sc, in ssa.Instruction) (Value, error) {
	r := fr.run
	switch x.K {
	case kBool:
		switch op {
		case token.EQL:
			return boolV(eq(x.T, y.T)), nil
		case token.NEQ:
			return boolV(not(eq(x.T, y.T))), nil
		case token.LAND, token.AND:
			return boolV(and(x.T, y.T)), nil
		case token.LOR, token.OR:
			return boolV(or(x.T, y.T)), nil
		}
	case kRef, kStr, kArr:
		switch op {
		case token.EQL:
			return boolV(eq(x.T, y.T)), nil
		case token.NEQ:
			return boolV(not(eq(x.T, y.T))), nil
		}
	case kF64:
		f := func(o string) Value {
			return &Sc{T: "(" + o + " RNE " + x.T + " " + y.T + ")", K: kF64, W: 64, Signed: true}
		}
		switch op {
		case token.ADD:
			return f("fp.add"), nil
		case token.SUB:
			return f("fp.sub"), nil
		case token.MUL:
			return f("fp.mul"), nil
		case token.QUO:
			return f("fp.div"), nil
		case token.EQL:
			return boolV("(fp.eq " + x.T + " " + y.T + ")"), nil
		case token.NEQ:
			return boolV(not("(fp.eq " + x.T + " " + y.T + ")")), nil
		case token.LSS:
			return boolV("(fp.lt " + x.T + " " + y.T + ")"), nil
		case token.LEQ:
			return boolV("(fp.leq " + x.T + " " + y.T + ")"), nil
		case token.GTR:
			return boolV("(fp.gt " + x.T + " " + y.T + ")"), nil
		case token.GEQ:
			return boolV("(fp.geq " + x.T + " " + y.T + ")"), nil
		}
	case kBV:
		w := x.W
		sg := x.Signed
		bin := func(o string) Value { return bv("("+o+" "+x.T+" "+y.T+")", w, sg) }
		cmp := func(so, uo string) Value {
			if sg {
				return boolV("(" + so + " " + x.T + " " + y.T + ")")
			}
			return boolV("(" + uo + " " + x.T + " " + y.T + ")")
		}
		switch op {
		case token.ADD:
			return bin("bvadd"), nil
		case token.SUB:
			return bin("bvsub"), nil
		case token.MUL:
			return bin("bvmul"), nil
		case token.QUO, token.REM:
			if in != nil {
				fr.safety(st, "safe.div", in, not(eq(y.T, bvLit(0, w))), "integer divide by zero")
			}
			if op == token.QUO {
				if sg {
					return bin("bvsdiv"), nil
				}
				return bin("bvudiv"), nil
			}
			if sg {
				return bin("bvsrem"), nil
			}
			return bin("bvurem"), nil
		case token.AND:
			return bin("bvand"), nil
		case token.OR:
			return bin("bvor"), nil
		case token.XOR:
			return bin("bvxor"), nil
		case token.AND_NOT:
			return bv("(bvand "+x.T+" (bvnot "+y.T+"))", w, sg), nil
		case token.SHL, token.SHR:
			cnt := shiftCount(y, w)
			if y.Signed && in != nil {
				fr.safety(st, "safe.shift", in, "(bvsle "+bvLit(0, y.W)+" "+y.T+")", "negative shift amount")
			}
			if op == token.SHL {
				return bv("(bvshl "+x.T+" "+cnt+")", w, sg), nil
			}
			if sg {
				return bv("(bvashr "+x.T+" "+cnt+")", w, sg), nil
			}
			return bv("(bvlshr "+x.T+" "+cnt+")", w, sg), nil
		case token.EQL:
			return boolV(eq(x.T, y.T)), nil
		case token.NEQ:
			return boolV(not(eq(x.T, y.T))), nil
		case token.LSS:
			return cmp("bvslt", "bvult"), nil
		case token.LEQ:
			return cmp("bvsle", "bvule"), nil
		case token.GTR:
			return cmp("bvsgt", "bvugt"), nil
		case token.GEQ:
			return cmp("bvsge", "bvuge"), nil
		}
	}
	return nil, r.unsupported("binary op %s on kind %d", op, x.K)
}

// shiftCount converts a shift count of any width to width w, saturating.
func shiftCount(y *Sc, w int) string {
	if y.W == w {
		return y.T
	}
	if y.W < w {
		return fmt.Sprintf("((_ zero_extend %d) %s)", w-y.W, y.T)
	}
	// wider count: saturate to w
	return fmt.Sprintf("(ite (bvuge %s %s) %s ((_ extract %d 0) %s))", y.T, bvLit(uint64(w), y.W), bvLit(uint64(w), w), w-1, y.T)
}

func (fr *Frame) convert(a Value, from, to types.Type) (Value, error) {
	r := fr.run
	s, ok := a.(*Sc)
	if !ok {
		// e.g. []byte(string) or named slice types
		if _, ok := a.(*SliceV); ok {
			if _, ok2 := to.Underlying().(*types.Slice); ok2 {
				return a, nil
			}
		}
		return nil, r.unsupported("convert %s -> %s", from, to)
	}
	tb, ok := to.Underlying().(*types.Basic)
	if !ok {
		if s.K == kRef {
			c := *s
			c.Ty = to
			return &c, nil
		}
		return nil, r.unsupported("convert %s -> %s", from, to)
	}
	k, w, sg, ok := basicInfo(tb)
	if !ok {
		return nil, r.unsupported("convert to %s", to)
	}
	return convScalar(r, s, k, w, sg, to)
}

func convScalar(r *Run, s *Sc, k kind, w int, sg bool, to types.Type) (Value, error) {
	switch {
	case s.K == kBV && k == kBV:
		var t string
		switch {
		case w == s.W:
			t = s.T
		case w < s.W:
			t = fmt.Sprintf("((_ extract %d 0) %s)", w-1, s.T)
		case s.Signed:
			t = fmt.Sprintf("((_ sign_extend %d) %s)", w-s.W, s.T)
		default:
			t = fmt.Sprintf("((_ zero_extend %d) %s)", w-s.W, s.T)
		}
		return &Sc{T: t, K: kBV, W: w, Signed: sg, Ty: to}, nil
	case s.K == kBV && k == kF64:
		if s.Signed {
			return &Sc{T: "((_ to_fp 11 53) RNE " + s.T + ")", K: kF64, W: 64, Signed: true, Ty: to}, nil
		}
		return &Sc{T: "((_ to_fp_unsigned 11 53) RNE " + s.T + ")", K: kF64, W: 64, Signed: true, Ty: to}, nil
	case s.K == kF64 && k == kBV:
		if sg {
			return &Sc{T: fmt.Sprintf("((_ fp.to_sbv %d) RTZ %s)", w, s.T), K: kBV, W: w, Signed: sg, Ty: to}, nil
		}
		return &Sc{T: fmt.Sprintf("((_ fp.to_ubv %d) RTZ %s)", w, s.T), K: kBV, W: w, Signed: sg, Ty: to}, nil
	case s.K == kF64 && k == kF64:
		return s, nil
	case s.K == k:
		c := *s
		c.Ty = to
		return &c, nil
	}
	return nil, r.unsupported("conversion kind %d -> %d", s.K, k)
}

// ---------------------------------------------------------------------------
// Maps

func mapComps(mt *types.Map) (has string, hasSort string, keySort string, err error) {
	kl, err := leavesOf(mt.Key())
	if err != nil || len(kl) != 1 {
		return "", "", "", fmt.Errorf("unsupported map key %s", mt.Key())
	}
	base := "Mp." + typeKey(mt)
	return base + ".has", sArr(sRef, sArr(kl[0].sort, sBool)), kl[0].sort, nil
}

func (r *Run) mapInit(st *State, mt *types.Map, ref string) error {
	has, hs, ks, err := mapComps(mt)
	if err != nil {
		return r.unsupported("%v", err)
	}
	h := r.heap.get(st, has, hs)
	r.heap.set(st, has, hs, sto(h, ref, fmt.Sprintf("((as const %s) false)", sArr(ks, sBool))), ref)
	card := "Mp." + typeKey(mt) + ".card"
	cs := sArr(sRef, sBV(64))
	c := r.heap.get(st, card, cs)
	r.heap.set(st, card, cs, sto(c, ref, bvLit(0, 64)), ref)
	return nil
}

func (r *Run) mapValComp(mt *types.Map) (string, []leaf, string, error) {
	if isStruct(mt.Elem()) {
		return "", nil, "", fmt.Errorf("map of struct values")
	}
	vl, err := leavesOf(mt.Elem())
	if err != nil {
		return "", nil, "", err
	}
	kl, _ := leavesOf(mt.Key())
	return "Mp." + typeKey(mt) + ".val", vl, kl[0].sort, nil
}

func (fr *Frame) mapUpdate(st *State, x *ssa.MapUpdate) error {
	r := fr.run
	mt := x.Map.Type().Underlying().(*types.Map)
	m, err := fr.value(x.Map)
	if err != nil {
		return err
	}
	k, err := fr.value(x.Key)
	if err != nil {
		return err
	}
	v, err := fr.value(x.Value)
	if err != nil {
		return err
	}
	ms := m.(*Sc)
	fr.safety(st, "safe.nilmap", x, not(eq(ms.T, refLit(0))), "assignment to entry in nil map")
	return r.mapStore(st, mt, ms.T, k.(*Sc).T, v)
}

func (r *Run) mapStore(st *State, mt *types.Map, ref, key string, v Value) error {
	has, hs, _, err := mapComps(mt)
	if err != nil {
		return r.unsupported("%v", err)
	}
	vc, vl, ks, err := r.mapValComp(mt)
	if err != nil {
		return r.unsupported("%v", err)
	}
	h := r.heap.get(st, has, hs)
	card := "Mp." + typeKey(mt) + ".card"
	cs := sArr(sRef, sBV(64))
	c := r.heap.get(st, card, cs)
	was := sel(sel(h, ref), key)
	r.heap.set(st, card, cs, sto(c, ref, ite(was, sel(c, ref), "(bvadd "+sel(c, ref)+" #x0000000000000001)")), ref)
	r.heap.set(st, has, hs, sto(h, ref, sto(sel(h, ref), key, "true")), ref)
	terms, err := leafTerms(v)
	if err != nil || len(terms) != len(vl) {
		return r.unsupported("map value %T", v)
	}
	for i, l := range vl {
		name := vc + l.suffix
		srt := sArr(sRef, sArr(ks, l.sort))
		a := r.heap.get(st, name, srt)
		r.heap.set(st, name, srt, sto(a, ref, sto(sel(a, ref), key, terms[i])), ref)
	}
	return nil
}

func (r *Run) mapLoad(st *State, mt *types.Map, ref, key string) (Value, string, error) {
	has, hs, _, err := mapComps(mt)
	if err != nil {
		return nil, "", r.unsupported("%v", err)
	}
	vc, vl, ks, err := r.mapValComp(mt)
	if err != nil {
		return nil, "", r.unsupported("%v", err)
	}
	h := r.heap.get(st, has, hs)
	present := and(not(eq(ref, refLit(0))), sel(sel(h, ref), key))
	terms := make([]string, len(vl))
	for i, l := range vl {
		a := r.heap.get(st, vc+l.suffix, sArr(sRef, sArr(ks, l.sort)))
		z := zeroLeaf(l)
		terms[i] = ite(present, sel(sel(a, ref), key), z)
	}
	return valueFromLeaves(mt.Elem(), terms), present, nil
}

func (r *Run) mapDelete(st *State, mt *types.Map, ref, key string) error {
	has, hs, _, err := mapComps(mt)
	if err != nil {
		return r.unsupported("%v", err)
	}
	h := r.heap.get(st, has, hs)
	card := "Mp." + typeKey(mt) + ".card"
	cs := sArr(sRef, sBV(64))
	c := r.heap.get(st, card, cs)
	was := sel(sel(h, ref), key)
	r.heap.set(st, card, cs, sto(c, ref, ite(was, "(bvsub "+sel(c, ref)+" #x0000000000000001)", sel(c, ref))), ref)
	r.heap.set(st, has, hs, sto(h, ref, sto(sel(h, ref), key, "false")), ref)
	return nil
}

func (fr *Frame) lookup(st *State, x *ssa.Lookup) (Value, error) {
	r := fr.run
	mt, ok := x.X.Type().Underlying().(*types.Map)
	if !ok {
		return nil, r.unsupported("lookup in %s", x.X.Type())
	}
	m, err := fr.value(x.X)
	if err != nil {
		return nil, err
	}
	k, err := fr.value(x.Index)
	if err != nil {
		return nil, err
	}
	v, present, err := r.mapLoad(st, mt, m.(*Sc).T, k.(*Sc).T)
	if err != nil {
		return nil, err
	}
	r.assume(st, r.typeInv(st, v))
	if s, ok := v.(*Sc); ok {
		s.Ty = mt.Elem()
	}
	if x.CommaOk {
		return &TupleV{E: []Value{v, boolV(present)}}, nil
	}
	return v, nil
}

func (fr *Frame) mapNext(st *State, x *ssa.Next) (Value, error) {
	r := fr.run
	if x.IsString {
		return nil, r.unsupported("range over string")
	}
	rng := x.Iter.(*ssa.Range)
	mt := rng.X.Type().Underlying().(*types.Map)
	m, err := fr.value(rng.X)
	if err != nil {
		return nil, err
	}
	ok := r.ctx.fresh("next.ok", sBool)
	kv, err := r.freshValue("next.k", mt.Key())
	if err != nil {
		return nil, err
	}
	v, present, err := r.mapLoad(st, mt, m.(*Sc).T, kv.(*Sc).T)
	if err != nil {
		return nil, err
	}
	r.assume(st, implies(ok, present))
	r.assume(st, r.typeInv(st, v))
	if s, ok := v.(*Sc); ok {
		s.Ty = mt.Elem()
	}
	if s, ok := kv.(*Sc); ok {
		s.Ty = mt.Key()
	}
	return &TupleV{E: []Value{boolV(ok), kv, v}}, nil
}
