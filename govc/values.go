package main

import (
	"fmt"
	"go/types"
	"sort"
	"strings"
)

// ---------------------------------------------------------------------------
// Symbolic values

type Value interface{}

type kind int

const (
	kBV kind = iota
	kBool
	kRef // pointer to named struct, map, chan, func id
	kF64
	kStr
	kArr // SMT array value (ghost / spec only)
)

// Sc is a scalar SMT value.
type Sc struct {
	T      string
	K      kind
	W      int
	Signed bool
	Sort   string // for kArr
	Fn     *FuncV // statically known function value, if any
	Ty     types.Type
}

type SliceV struct {
	Base, Off, Len, Cap string
	Elem                types.Type
}

type StructV struct {
	Ty types.Type // named or struct type
	F  []Value
}

type TupleV struct{ E []Value }

// IfaceV is an interface value: dynamic type tag and payload reference.
type IfaceV struct {
	Tag, Ref string
	Conc     Value      // statically known concrete value (MakeInterface), if any
	ConcTy   types.Type // its type
}

// AddrV is a pointer to something that is not a named struct.
type AddrV struct {
	Kind string // "field" "elem" "cell" "arr"
	Comp string // component base name (field/cell)
	Ref  string // ref term (field/cell/arr: the object; elem: backing array)
	Idx  string // elem: absolute index in backing array (bv64)
	Ty   types.Type
	N    int64 // arr: length
}

type FuncV struct {
	Fn   interface{} // *ssa.Function
	Bind []Value
}

func bv(t string, w int, signed bool) *Sc { return &Sc{T: t, K: kBV, W: w, Signed: signed} }
func boolV(t string) *Sc                  { return &Sc{T: t, K: kBool} }
func refV(t string) *Sc                   { return &Sc{T: t, K: kRef, W: 32} }
func intV(t string) *Sc                   { return bv(t, 64, true) }

func (s *Sc) sort() string {
	switch s.K {
	case kBV:
		return sBV(s.W)
	case kBool:
		return sBool
	case kRef:
		return sRef
	case kF64:
		return sF64
	case kStr:
		return sStr
	case kArr:
		return s.Sort
	}
	return "?"
}

// ---------------------------------------------------------------------------
// Go types -> leaves

type leaf struct {
	suffix string // "", ".base", ".off", ".len", ".cap", ".tag", ".ref"
	sort   string
	k      kind
	w      int
	signed bool
}

func basicInfo(b *types.Basic) (k kind, w int, signed bool, ok bool) {
	switch b.Kind() {
	case types.Bool, types.UntypedBool:
		return kBool, 0, false, true
	case types.Int8:
		return kBV, 8, true, true
	case types.Int16:
		return kBV, 16, true, true
	case types.Int32, types.UntypedRune:
		return kBV, 32, true, true
	case types.Int, types.Int64, types.UntypedInt:
		return kBV, 64, true, true
	case types.Uint8:
		return kBV, 8, false, true
	case types.Uint16:
		return kBV, 16, false, true
	case types.Uint32:
		return kBV, 32, false, true
	case types.Uint, types.Uint64, types.Uintptr:
		return kBV, 64, false, true
	case types.Float64, types.Float32, types.UntypedFloat:
		return kF64, 64, true, true
	case types.String, types.UntypedString:
		return kStr, 0, false, true
	case types.UnsafePointer:
		return kRef, 32, false, true
	}
	return 0, 0, false, false
}

func isNamedStruct(t types.Type) bool {
	if _, ok := t.(*types.Named); !ok {
		return false
	}
	_, ok := t.Underlying().(*types.Struct)
	return ok
}

func isStruct(t types.Type) bool {
	_, ok := t.Underlying().(*types.Struct)
	return ok
}

// leavesOf lists the SMT leaves a location of type t expands to. Struct types
// have no leaves of their own (they are embedded objects).
func leavesOf(t types.Type) ([]leaf, error) {
	switch u := t.Underlying().(type) {
	case *types.Basic:
		k, w, s, ok := basicInfo(u)
		if !ok {
			return nil, fmt.Errorf("unsupported basic type %s", t)
		}
		sc := &Sc{K: k, W: w, Signed: s}
		return []leaf{{"", sc.sort(), k, w, s}}, nil
	case *types.Pointer, *types.Map, *types.Chan, *types.Signature:
		return []leaf{{"", sRef, kRef, 32, false}}, nil
	case *types.Slice:
		return []leaf{
			{".base", sRef, kRef, 32, false},
			{".off", sBV(64), kBV, 64, true},
			{".len", sBV(64), kBV, 64, true},
			{".cap", sBV(64), kBV, 64, true},
		}, nil
	case *types.Interface:
		return []leaf{{".tag", sBV(16), kBV, 16, false}, {".ref", sRef, kRef, 32, false}}, nil
	}
	return nil, fmt.Errorf("unsupported location type %s", t)
}

func typeKey(t types.Type) string {
	s := types.TypeString(t, func(p *types.Package) string { return p.Name() })
	return sanitize(s)
}

func namedKey(t types.Type) string {
	if n, ok := t.(*types.Named); ok {
		o := n.Obj()
		if o.Pkg() != nil {
			return o.Pkg().Name() + "." + o.Name()
		}
		return o.Name()
	}
	return typeKey(t)
}

// elemComp names the element memory for slices/arrays of element type t.
func elemComp(t types.Type) string { return "M." + typeKey(t) }

// ---------------------------------------------------------------------------
// State: path guard + current version of every heap component

type compInfo struct {
	sort string
}

type State struct {
	guard string
	heap  map[string]string
	alloc string
	epoch int
}

func (s *State) clone() *State {
	h := make(map[string]string, len(s.heap))
	for k, v := range s.heap {
		h[k] = v
	}
	return &State{guard: s.guard, heap: h, alloc: s.alloc, epoch: s.epoch}
}

// Heap component registry lives on the Engine.
type Heap struct {
	ctx   *Ctx
	comps map[string]string            // name -> sort
	init  map[string]map[int]string    // name -> epoch -> symbol
	log   []map[string]map[string]bool // write log stack: comp -> set of ref terms ("*" unknown)
	all   map[string]map[string]bool   // every write of the run
}

func newHeap(ctx *Ctx) *Heap {
	return &Heap{ctx: ctx, comps: map[string]string{}, init: map[string]map[int]string{}}
}

func (h *Heap) declare(name, sort string) {
	if old, ok := h.comps[name]; ok {
		if old != sort {
			panic(fmt.Sprintf("component %s sort mismatch %s vs %s", name, old, sort))
		}
		return
	}
	h.comps[name] = sort
}

func (h *Heap) get(st *State, name, sort string) string {
	h.declare(name, sort)
	if v, ok := st.heap[name]; ok {
		return v
	}
	m := h.init[name]
	if m == nil {
		m = map[int]string{}
		h.init[name] = m
	}
	if v, ok := m[st.epoch]; ok {
		return v
	}
	v := h.ctx.fresh(fmt.Sprintf("%s@%d", name, st.epoch), sort)
	m[st.epoch] = v
	return v
}

func (h *Heap) set(st *State, name, sort, term, ref string) {
	h.declare(name, sort)
	st.heap[name] = h.ctx.define(name, sort, term)
	if h.all == nil {
		h.all = map[string]map[string]bool{}
	}
	if h.all[name] == nil {
		h.all[name] = map[string]bool{}
	}
	h.all[name][ref] = true
	for _, l := range h.log {
		m := l[name]
		if m == nil {
			m = map[string]bool{}
			l[name] = m
		}
		m[ref] = true
	}
}

// setQuiet updates a component without recording a write (the value is provably unchanged).
func (h *Heap) setQuiet(st *State, name, sort, term string) {
	h.declare(name, sort)
	st.heap[name] = h.ctx.define(name, sort, term)
}

func (h *Heap) pushLog() { h.log = append(h.log, map[string]map[string]bool{}) }
func (h *Heap) popLog() map[string]map[string]bool {
	l := h.log[len(h.log)-1]
	h.log = h.log[:len(h.log)-1]
	return l
}

// merge joins states with the given edge guards into one state.
func (h *Heap) merge(sts []*State) *State {
	if len(sts) == 1 {
		return sts[0].clone()
	}
	var gs []string
	for _, s := range sts {
		gs = append(gs, s.guard)
	}
	out := &State{heap: map[string]string{}}
	out.guard = h.ctx.define("g", sBool, or(gs...))
	maxEpoch := 0
	sameEpoch := true
	for _, s := range sts {
		if s.epoch > maxEpoch {
			maxEpoch = s.epoch
		}
		if s.epoch != sts[0].epoch {
			sameEpoch = false
		}
	}
	out.epoch = maxEpoch
	names := map[string]bool{}
	if sameEpoch {
		for _, s := range sts {
			for k := range s.heap {
				names[k] = true
			}
		}
	} else {
		for k := range h.comps {
			names[k] = true
		}
	}
	var sorted []string
	for k := range names {
		sorted = append(sorted, k)
	}
	sort.Strings(sorted)
	for _, k := range sorted {
		srt := h.comps[k]
		terms := make([]string, len(sts))
		same := true
		for i, s := range sts {
			terms[i] = h.get(s, k, srt)
			if terms[i] != terms[0] {
				same = false
			}
		}
		if same {
			if _, explicit := sts[0].heap[k]; explicit || !sameEpoch {
				out.heap[k] = terms[0]
			}
			continue
		}
		out.heap[k] = h.ctx.define(k, srt, h.mergeArrays(sts, terms))
	}
	// alloc counter
	allocs := make([]string, len(sts))
	for i, s := range sts {
		allocs[i] = s.alloc
	}
	out.alloc = h.ctx.define("alloc", sRef, groupedIte(sts, allocs))
	return out
}

// mergeArrays joins versions of a heap component. When all of them are store chains over
// one root, the result is again a store chain over that root whose stored values are
// chosen by the path guards (valid whatever aliasing holds between the references, since
// each value is read from the respective version at that reference). Arrays thus stay
// store chains across joins and reads keep resolving syntactically.
func (h *Heap) mergeArrays(sts []*State, terms []string) string {
	c := h.ctx
	root := ""
	var union []string
	seen := map[string]bool{}
	for i, t := range terms {
		r, refs := c.chainOf(t)
		if i == 0 {
			root = r
		} else if r != root {
			return groupedIte(sts, terms)
		}
		for _, x := range refs {
			if !seen[x] {
				seen[x] = true
				union = append(union, x)
			}
		}
	}
	if len(union) == 0 || len(union) > 24 {
		return groupedIte(sts, terms)
	}
	res := root
	for _, u := range union {
		vals := make([]string, len(terms))
		for i, t := range terms {
			vals[i] = c.selectOf(t, u)
		}
		res = sto(res, u, groupedIte(sts, vals))
	}
	return res
}

// groupedIte selects terms[i] under sts[i].guard, grouping identical terms.
func groupedIte(sts []*State, terms []string) string {
	var order []string
	groups := map[string][]string{}
	for i, t := range terms {
		if _, ok := groups[t]; !ok {
			order = append(order, t)
		}
		groups[t] = append(groups[t], sts[i].guard)
	}
	// the largest group becomes the default branch
	def := order[0]
	for _, t := range order {
		if len(groups[t]) > len(groups[def]) {
			def = t
		}
	}
	res := def
	for i := len(order) - 1; i >= 0; i-- {
		t := order[i]
		if t == def {
			continue
		}
		res = ite(or(groups[t]...), t, res)
	}
	return res
}

// iteValue merges two symbolic values of the same shape.
func iteValue(ctx *Ctx, c string, a, b Value) (Value, error) {
	switch x := a.(type) {
	case nil:
		if b == nil {
			return nil, nil
		}
	case *Sc:
		y, ok := b.(*Sc)
		if !ok {
			return nil, fmt.Errorf("phi shape mismatch")
		}
		r := *x
		r.T = ite(c, x.T, y.T)
		if x.Fn != y.Fn {
			r.Fn = nil
		}
		return &r, nil
	case *SliceV:
		y, ok := b.(*SliceV)
		if !ok {
			return nil, fmt.Errorf("phi shape mismatch")
		}
		return &SliceV{ite(c, x.Base, y.Base), ite(c, x.Off, y.Off), ite(c, x.Len, y.Len), ite(c, x.Cap, y.Cap), x.Elem}, nil
	case *IfaceV:
		y, ok := b.(*IfaceV)
		if !ok {
			return nil, fmt.Errorf("phi shape mismatch")
		}
		return &IfaceV{Tag: ite(c, x.Tag, y.Tag), Ref: ite(c, x.Ref, y.Ref)}, nil
	case *StructV:
		y, ok := b.(*StructV)
		if !ok || len(x.F) != len(y.F) {
			return nil, fmt.Errorf("phi shape mismatch")
		}
		r := &StructV{Ty: x.Ty, F: make([]Value, len(x.F))}
		for i := range x.F {
			v, err := iteValue(ctx, c, x.F[i], y.F[i])
			if err != nil {
				return nil, err
			}
			r.F[i] = v
		}
		return r, nil
	case *TupleV:
		y, ok := b.(*TupleV)
		if !ok || len(x.E) != len(y.E) {
			return nil, fmt.Errorf("phi shape mismatch")
		}
		r := &TupleV{E: make([]Value, len(x.E))}
		for i := range x.E {
			v, err := iteValue(ctx, c, x.E[i], y.E[i])
			if err != nil {
				return nil, err
			}
			r.E[i] = v
		}
		return r, nil
	case *AddrV:
		y, ok := b.(*AddrV)
		if ok && x.Kind == y.Kind && x.Comp == y.Comp && types.Identical(x.Ty, y.Ty) {
			r := *x
			r.Ref = ite(c, x.Ref, y.Ref)
			r.Idx = ite(c, x.Idx, y.Idx)
			return &r, nil
		}
		return nil, fmt.Errorf("phi of unrelated addresses")
	}
	return nil, fmt.Errorf("phi: unsupported value %T", a)
}

func describe(v Value) string {
	switch x := v.(type) {
	case *Sc:
		return x.T
	case *SliceV:
		return fmt.Sprintf("slice(%s,%s,%s,%s)", x.Base, x.Off, x.Len, x.Cap)
	case *IfaceV:
		return fmt.Sprintf("iface(%s,%s)", x.Tag, x.Ref)
	case *StructV:
		var s []string
		for _, f := range x.F {
			s = append(s, describe(f))
		}
		return "{" + strings.Join(s, ",") + "}"
	case *AddrV:
		return fmt.Sprintf("&%s[%s %s]", x.Comp, x.Ref, x.Idx)
	}
	return fmt.Sprintf("%T", v)
}
