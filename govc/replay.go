package main

import (
	"bufio"
	"bytes"
	"context"
	"encoding/json"
	"fmt"
	"go/types"
	"os"
	"os/exec"
	"path/filepath"
	"regexp"
	"sort"
	"strconv"
	"strings"
	"time"

	"golang.org/x/tools/go/ssa"
)

// ---------------------------------------------------------------------------
// Replay: turn a solver model into an in-package Go test that runs the real function
// on the model's inputs and compares what the real code returns with what the model
// predicted. If they agree the model is a real execution, and since it falsifies the
// clause, the clause is violated by the real code ("reproduced").

type replayInfo struct {
	fn      *ssa.Function
	params  []Value
	entry   *State
	results []Value
	exit    *State
	run     *Run
}

// tryReplay returns the replay file and whether no failing input could be produced.
func (e *Engine) tryReplay(prop string, o *Oblig) (string, bool) {
	content := map[string]interface{}{
		"obligation":    o.Name,
		"kind":          o.Kind,
		"function":      o.Func,
		"clause":        o.Text,
		"tags":          o.Tags,
		"solver":        o.Res.Solver,
		"solver_status": o.Res.Status,
		"solver_output": firstLines(o.Res.Output, 40),
		"smt_sha":       o.Res.SHA,
	}
	noInput := true
	if o.info != nil && replayable(o) {
		ok, err := e.replayModel(o, content)
		if err != nil {
			content["replay_error"] = err.Error()
		}
		if ok {
			noInput = false
		}
	} else {
		content["replay_note"] = "obligation is stated over an arbitrary loop iteration or a spec-level lemma; no input of the function corresponds to the solver's state"
	}
	if noInput {
		content["outcome"] = "no-failing-input-found"
	}
	return writeReplay(prop, o.Name, content), noInput
}

func replayable(o *Oblig) bool {
	switch o.Kind {
	case "post", "pre@call", "assert", "frame", "safe.idx", "safe.slice", "safe.nil", "safe.div", "safe.make", "safe.typeassert", "safe.panic", "safe.nilmap", "safe.shift", "safe.nilfunc":
		return !o.inLoop
	}
	return false
}

// modelSession keeps one interactive solver process alive: the query is solved once and
// values of further terms are read from that model; "prefer small" constraints are tried
// incrementally with push/pop.
type modelSession struct {
	ctx      *Ctx
	declared map[string]bool
	known    map[string]string
	cmd      *exec.Cmd
	in       *bufio.Writer
	out      *bufio.Reader
	dead     error
	deadline time.Time
}

var valRe = regexp.MustCompile(`#x[0-9a-fA-F]+|#b[01]+|\btrue\b|\bfalse\b|\(- [0-9]+\)|[0-9]+`)

func newModelSession(ctx *Ctx, script string) (*modelSession, error) {
	base := strings.Replace(script, "(check-sat)\n", "", 1)
	m := &modelSession{ctx: ctx, known: map[string]string{}, declared: map[string]bool{}, deadline: time.Now().Add(90 * time.Second)}
	for _, l := range strings.Split(base, "\n") {
		for _, pre := range []string{"(declare-const ", "(define-fun ", "(declare-fun "} {
			if strings.HasPrefix(l, pre) {
				rest := l[len(pre):]
				if i := strings.IndexAny(rest, " ("); i > 0 {
					m.declared[rest[:i]] = true
				}
			}
		}
	}
	m.cmd = exec.Command("z3-new", "-in", "-t:20000")
	stdin, err := m.cmd.StdinPipe()
	if err != nil {
		return nil, err
	}
	stdout, err := m.cmd.StdoutPipe()
	if err != nil {
		return nil, err
	}
	if err := m.cmd.Start(); err != nil {
		return nil, err
	}
	m.in = bufio.NewWriter(stdin)
	m.out = bufio.NewReader(stdout)
	go func() {
		time.Sleep(100 * time.Second)
		m.cmd.Process.Kill()
	}()
	if pre := m.roundTrip(base); strings.Contains(pre, "error") {
		m.close()
		return nil, fmt.Errorf("solver rejected the script: %s", firstLines(pre, 3))
	}
	if r := m.check(); r != "sat" {
		m.close()
		return nil, fmt.Errorf("model query answered %q", r)
	}
	return m, nil
}

func (m *modelSession) close() {
	if m.cmd != nil && m.cmd.Process != nil {
		m.cmd.Process.Kill()
		m.cmd.Wait()
	}
}

func (m *modelSession) send(s string) {
	if f := os.Getenv("GOVC_DEBUG_MODEL"); f != "" {
		if fh, err := os.OpenFile(f, os.O_APPEND|os.O_CREATE|os.O_WRONLY, 0o644); err == nil {
			fh.WriteString(s + "\n")
			fh.Close()
		}
	}
	m.in.WriteString(s)
	m.in.WriteString("\n")
	m.in.Flush()
}

// roundTrip sends a command and returns everything the solver prints up to a sync marker.
func (m *modelSession) roundTrip(cmd string) string {
	m.send(cmd)
	m.send("(echo \"ZZSYNC\")")
	var sb strings.Builder
	for {
		line, err := m.out.ReadString('\n')
		if err != nil {
			m.dead = err
			return sb.String()
		}
		t := strings.TrimSpace(line)
		if t == "ZZSYNC" || t == "\"ZZSYNC\"" {
			return strings.TrimSpace(sb.String())
		}
		sb.WriteString(t)
		sb.WriteByte(' ')
	}
}

func (m *modelSession) readSexpr() string { return "" }

func (m *modelSession) check() string {
	r := m.roundTrip("(check-sat)")
	f := strings.Fields(r)
	if len(f) == 0 {
		return "none"
	}
	return f[len(f)-1]
}

func (m *modelSession) declare(terms []string) {
	needIdx := map[int]bool{}
	stack := append([]string{}, terms...)
	for len(stack) > 0 {
		s := stack[len(stack)-1]
		stack = stack[:len(stack)-1]
		for _, t := range tokens(s) {
			if i, ok := m.ctx.idx[t]; ok && !needIdx[i] && !m.declared[t] {
				needIdx[i] = true
				stack = append(stack, m.ctx.defs[i].line)
			}
		}
	}
	var idxs []int
	for i := range needIdx {
		idxs = append(idxs, i)
	}
	sort.Ints(idxs)
	if len(idxs) == 0 {
		return
	}
	for _, i := range idxs {
		m.send(m.ctx.defs[i].line)
		m.declared[m.ctx.defs[i].name] = true
	}
	// new declarations invalidate the model: re-solve with everything learnt so far pinned
	m.repin()
}

func (m *modelSession) repin() bool {
	for t, v := range m.known {
		m.send(fmt.Sprintf("(assert (= %s %s))", t, v))
	}
	return m.check() == "sat"
}

func (m *modelSession) get(terms []string) error {
	if m.dead != nil {
		return m.dead
	}
	if time.Now().After(m.deadline) {
		return fmt.Errorf("model extraction budget exhausted")
	}
	var need []string
	for _, t := range terms {
		if _, ok := m.known[t]; !ok {
			need = append(need, t)
		}
	}
	if len(need) == 0 {
		return nil
	}
	m.declare(need)
	for _, t := range need {
		a := m.roundTrip(fmt.Sprintf("(get-value (%s))", t))
		if m.dead != nil {
			return fmt.Errorf("solver died: %v", m.dead)
		}
		vals := valRe.FindAllString(a, -1)
		if len(vals) == 0 || strings.Contains(a, "error") {
			return fmt.Errorf("cannot read value of %s from %q", t, a)
		}
		m.known[t] = vals[len(vals)-1]
	}
	return nil
}

// preferSmall pins term (a signed 64-bit value) below the smallest bound that keeps the query satisfiable.
func (m *modelSession) preferSmall(term string) {
	if _, ok := m.known[term]; ok || m.dead != nil {
		return
	}
	m.declare([]string{term})
	for _, bound := range []uint64{48, 400, 70000} {
		m.send("(push 1)")
		m.send(fmt.Sprintf("(assert (and (bvsle #x0000000000000000 %s) (bvsle %s %s)))", term, term, bvLit(bound, 64)))
		ok := true
		for t, v := range m.known {
			m.send(fmt.Sprintf("(assert (= %s %s))", t, v))
		}
		if m.check() != "sat" {
			ok = false
		}
		if ok {
			m.get([]string{term})
			return
		}
		m.send("(pop 1)")
	}
	// restore a model
	m.repin()
}

func splitSexprs(s string) []string {
	var out []string
	depth := 0
	start := -1
	for i, c := range s {
		switch c {
		case '(':
			if depth == 0 {
				start = i
			}
			depth++
		case ')':
			depth--
			if depth == 0 && start >= 0 {
				out = append(out, s[start:i+1])
				start = -1
			}
		}
	}
	return out
}

func (m *modelSession) u64(term string) (uint64, error) {
	if err := m.get([]string{term}); err != nil {
		return 0, err
	}
	return parseSMTValue(m.known[term])
}

func parseSMTValue(v string) (uint64, error) {
	switch {
	case v == "true":
		return 1, nil
	case v == "false":
		return 0, nil
	case strings.HasPrefix(v, "#x"):
		return strconv.ParseUint(v[2:], 16, 64)
	case strings.HasPrefix(v, "#b"):
		return strconv.ParseUint(v[2:], 2, 64)
	case strings.HasPrefix(v, "(- "):
		n, err := strconv.ParseUint(strings.TrimSuffix(v[3:], ")"), 10, 64)
		return uint64(-int64(n)), err
	default:
		if n, err := strconv.ParseUint(v, 10, 64); err == nil {
			return n, nil
		}
	}
	return 0, fmt.Errorf("bad value %q", v)
}

func (e *Engine) precreate(info *replayInfo) {
	r := info.run
	seen := map[string]bool{}
	var walk func(t types.Type, depth int)
	walk = func(t types.Type, depth int) {
		if depth > 5 {
			return
		}
		switch u := t.Underlying().(type) {
		case *types.Pointer:
			walk(u.Elem(), depth+1)
		case *types.Slice:
			if !isStruct(u.Elem()) {
				if ls, err := leavesOf(u.Elem()); err == nil {
					for _, l := range ls {
						for _, st := range []*State{info.entry, info.exit} {
							r.heap.get(st, elemComp(u.Elem())+l.suffix, sArr(sRef, sArr(sBV(64), l.sort)))
						}
					}
				}
			}
			walk(u.Elem(), depth+1)
		case *types.Struct:
			k := typeKey(t)
			if seen[k] {
				return
			}
			seen[k] = true
			for i := 0; i < u.NumFields(); i++ {
				f := u.Field(i)
				if !isStruct(f.Type()) {
					if ls, err := leavesOf(f.Type()); err == nil {
						for _, l := range ls {
							for _, st := range []*State{info.entry, info.exit} {
								r.heap.get(st, fieldComp(t, f)+l.suffix, sArr(sRef, l.sort))
							}
						}
					}
				}
				walk(f.Type(), depth+1)
			}
		}
	}
	for _, p := range info.fn.Params {
		walk(p.Type(), 0)
	}
	res := info.fn.Signature.Results()
	for i := 0; i < res.Len(); i++ {
		walk(res.At(i).Type(), 0)
	}
}

// ---------------------------------------------------------------------------
// Building Go source for the inputs

type builder struct {
	e     *Engine
	r     *Run
	m     *modelSession
	st    *State
	stmts []string
	refs  map[string]string // type+ref -> variable
	n     int
	notes []string
}

func (b *builder) typeStr(t types.Type) string {
	return types.TypeString(t, func(p *types.Package) string {
		if p == b.e.pkg.Pkg {
			return ""
		}
		return p.Name()
	})
}

func (b *builder) fresh(prefix string) string {
	b.n++
	return fmt.Sprintf("%s%d", prefix, b.n)
}

func signedLit(v uint64, w int) string {
	if w < 64 {
		if v&(1<<uint(w-1)) != 0 {
			return fmt.Sprintf("%d", int64(v)-(int64(1)<<uint(w)))
		}
		return fmt.Sprintf("%d", v)
	}
	return fmt.Sprintf("%d", int64(v))
}

// lit returns a Go expression of type t for symbolic value v in the model.
func (b *builder) lit(t types.Type, v Value, depth int) (string, error) {
	switch x := v.(type) {
	case *Sc:
		switch x.K {
		case kBool:
			u, err := b.m.u64(x.T)
			if err != nil {
				return "", err
			}
			if _, ok := t.Underlying().(*types.Basic); ok {
				return fmt.Sprintf("%s(%v)", b.typeStr(t), u == 1), nil
			}
			return fmt.Sprint(u == 1), nil
		case kBV:
			u, err := b.m.u64(x.T)
			if err != nil {
				return "", err
			}
			if x.Signed {
				return fmt.Sprintf("%s(%s)", b.typeStr(t), signedLit(u, x.W)), nil
			}
			return fmt.Sprintf("%s(%d)", b.typeStr(t), u), nil
		case kStr:
			return fmt.Sprintf("%s(\"\")", b.typeStr(t)), nil
		case kF64:
			return "", fmt.Errorf("float input")
		case kRef:
			return b.refLit(t, x, depth)
		}
	case *SliceV:
		return b.sliceLit(t, x, depth)
	case *StructV:
		return b.structLit(t, x, depth)
	case *IfaceV:
		tag, err := b.m.u64(x.Tag)
		if err != nil {
			return "", err
		}
		if tag == 0 {
			return "nil", nil
		}
		if types.Identical(t, types.Universe.Lookup("error").Type()) {
			return `errors.New("replay")`, nil
		}
		return "", fmt.Errorf("non-nil interface input of type %s", t)
	}
	return "", fmt.Errorf("unsupported input value %T for %s", v, t)
}

func (b *builder) structLit(t types.Type, x *StructV, depth int) (string, error) {
	u := t.Underlying().(*types.Struct)
	if n, ok := t.(*types.Named); ok && n.Obj().Pkg() != b.e.pkg.Pkg {
		return b.typeStr(t) + "{}", nil // foreign struct: zero value
	}
	var fs []string
	for i := 0; i < u.NumFields(); i++ {
		f := u.Field(i)
		l, err := b.lit(f.Type(), x.F[i], depth)
		if err != nil {
			return "", fmt.Errorf("field %s: %v", f.Name(), err)
		}
		fs = append(fs, f.Name()+": "+l)
	}
	return b.typeStr(t) + "{" + strings.Join(fs, ", ") + "}", nil
}

func (b *builder) sliceLit(t types.Type, x *SliceV, depth int) (string, error) {
	b.m.preferSmall(x.Len)
	base, err := b.m.u64(x.Base)
	if err != nil {
		return "", err
	}
	n, err := b.m.u64(x.Len)
	if err != nil {
		return "", err
	}
	if base == 0 && n == 0 {
		return "nil", nil
	}
	if int64(n) < 0 || n > 70000 {
		return "", fmt.Errorf("slice of length %d in the model", int64(n))
	}
	if types.Identical(x.Elem.Underlying(), types.Typ[types.Uint8]) {
		h := b.r.heap.get(b.st, elemComp(x.Elem), sArr(sRef, sArr(sBV(64), sBV(8))))
		var terms []string
		for i := uint64(0); i < n; i++ {
			terms = append(terms, sel(sel(h, x.Base), "(bvadd "+x.Off+" "+bvLit(i, 64)+")"))
		}
		if err := b.m.get(terms); err != nil {
			return "", err
		}
		var bs []string
		for _, tm := range terms {
			u, _ := parseSMTValue(b.m.known[tm])
			bs = append(bs, fmt.Sprintf("0x%02x", u))
		}
		return b.typeStr(t) + "{" + strings.Join(bs, ", ") + "}", nil
	}
	if n > 64 {
		return "", fmt.Errorf("slice of %d non-byte elements", n)
	}
	var els []string
	for i := uint64(0); i < n; i++ {
		ev, err := b.r.loadElem(b.st, x.Elem, x.Base, "(bvadd "+x.Off+" "+bvLit(i, 64)+")")
		if err != nil {
			return "", err
		}
		if s, ok := ev.(*Sc); ok {
			s.Ty = x.Elem
		}
		l, err := b.lit(x.Elem, ev, depth+1)
		if err != nil {
			return "", err
		}
		els = append(els, l)
	}
	return b.typeStr(t) + "{" + strings.Join(els, ", ") + "}", nil
}

func (b *builder) refLit(t types.Type, x *Sc, depth int) (string, error) {
	ref, err := b.m.u64(x.T)
	if err != nil {
		return "", err
	}
	if ref == 0 {
		return "nil", nil
	}
	switch u := t.Underlying().(type) {
	case *types.Pointer:
		key := fmt.Sprintf("%s@%d", b.typeStr(t), ref)
		if v, ok := b.refs[key]; ok {
			return v, nil
		}
		if depth > 6 {
			return "", fmt.Errorf("pointer graph too deep")
		}
		el := u.Elem()
		if n, ok := el.(*types.Named); ok && n.Obj().Pkg() != nil && n.Obj().Pkg().Name() == "astikit" && n.Obj().Name() == "BytesIterator" {
			bsV, err := b.r.loadLeafs(b.st, "F.astikit.BytesIterator.bs", x.T, n.Underlying().(*types.Struct).Field(0).Type())
			if err != nil {
				return "", err
			}
			bl, err := b.lit(types.NewSlice(types.Typ[types.Uint8]), bsV, depth+1)
			if err != nil {
				return "", err
			}
			offV, err := b.r.loadLeafs(b.st, "F.astikit.BytesIterator.offset", x.T, types.Typ[types.Int])
			if err != nil {
				return "", err
			}
			b.m.preferSmall(offV.(*Sc).T)
			off, err := b.m.u64(offV.(*Sc).T)
			if err != nil {
				return "", err
			}
			name := b.fresh("it")
			b.refs[key] = name
			b.stmts = append(b.stmts, fmt.Sprintf("%s := astikit.NewBytesIterator(%s)", name, bl), fmt.Sprintf("%s.Seek(%d)", name, int64(off)))
			return name, nil
		}
		if !isStruct(el) {
			return "", fmt.Errorf("pointer to %s", el)
		}
		if n, ok := el.(*types.Named); ok && n.Obj().Pkg() != b.e.pkg.Pkg {
			return "", fmt.Errorf("pointer to foreign struct %s", el)
		}
		name := b.fresh("p")
		b.refs[key] = name
		sv, err := b.r.loadStruct(b.st, x.T, el)
		if err != nil {
			return "", err
		}
		l, err := b.structLit(el, sv.(*StructV), depth+1)
		if err != nil {
			return "", err
		}
		b.stmts = append(b.stmts, fmt.Sprintf("%s := &%s", name, l))
		return name, nil
	case *types.Signature:
		return "nil", nil
	case *types.Map:
		return b.typeStr(t) + "{}", nil
	}
	return "", fmt.Errorf("unsupported reference type %s", t)
}

// ---------------------------------------------------------------------------
// Predicted observations

type obs struct {
	path string
	val  string
}

func (b *builder) predict(path string, t types.Type, v Value, st *State, depth int, out *[]obs) error {
	saved := b.st
	b.st = st
	defer func() { b.st = saved }()
	switch x := v.(type) {
	case *Sc:
		switch x.K {
		case kBool:
			u, err := b.m.u64(x.T)
			if err != nil {
				return err
			}
			*out = append(*out, obs{path, fmt.Sprint(u == 1)})
		case kBV:
			u, err := b.m.u64(x.T)
			if err != nil {
				return err
			}
			if x.Signed {
				*out = append(*out, obs{path, signedLit(u, x.W)})
			} else {
				*out = append(*out, obs{path, fmt.Sprint(u)})
			}
		case kRef:
			pt, ok := t.Underlying().(*types.Pointer)
			if !ok {
				return nil
			}
			ref, err := b.m.u64(x.T)
			if err != nil {
				return err
			}
			if ref == 0 {
				*out = append(*out, obs{path, "nil"})
				return nil
			}
			*out = append(*out, obs{path, "ptr"})
			el := pt.Elem()
			if n, ok := el.(*types.Named); ok && n.Obj().Pkg() != nil && n.Obj().Pkg().Name() == "astikit" && n.Obj().Name() == "BytesIterator" {
				offV, err := b.r.loadLeafs(st, "F.astikit.BytesIterator.offset", x.T, types.Typ[types.Int])
				if err != nil {
					return err
				}
				u, err := b.m.u64(offV.(*Sc).T)
				if err != nil {
					return err
				}
				*out = append(*out, obs{path + ".offset", signedLit(u, 64)})
				return nil
			}
			if !isStruct(el) || depth >= 3 {
				return nil
			}
			if n, ok := el.(*types.Named); ok && n.Obj().Pkg() != b.e.pkg.Pkg {
				return nil
			}
			sv, err := b.r.loadStruct(st, x.T, el)
			if err != nil {
				return nil
			}
			return b.predict(path, el, sv, st, depth+1, out)
		}
	case *StructV:
		if n, ok := t.(*types.Named); ok && n.Obj().Pkg() != b.e.pkg.Pkg {
			return nil
		}
		u := t.Underlying().(*types.Struct)
		for i := 0; i < u.NumFields(); i++ {
			if err := b.predict(path+"."+u.Field(i).Name(), u.Field(i).Type(), x.F[i], st, depth, out); err != nil {
				return err
			}
		}
	case *SliceV:
		n, err := b.m.u64(x.Len)
		if err != nil {
			return err
		}
		*out = append(*out, obs{path + ".len", signedLit(n, 64)})
		if int64(n) < 0 || n > 1<<20 {
			return nil
		}
		if types.Identical(x.Elem.Underlying(), types.Typ[types.Uint8]) {
			h := b.r.heap.get(st, elemComp(x.Elem), sArr(sRef, sArr(sBV(64), sBV(8))))
			for i := uint64(0); i < n && i < 24; i++ {
				u, err := b.m.u64(sel(sel(h, x.Base), "(bvadd "+x.Off+" "+bvLit(i, 64)+")"))
				if err != nil {
					return err
				}
				*out = append(*out, obs{fmt.Sprintf("%s[%d]", path, i), fmt.Sprint(u)})
			}
		} else if _, ok := x.Elem.Underlying().(*types.Pointer); ok && depth < 2 {
			for i := uint64(0); i < n && i < 3; i++ {
				ev, err := b.r.loadElem(st, x.Elem, x.Base, "(bvadd "+x.Off+" "+bvLit(i, 64)+")")
				if err != nil {
					return nil
				}
				if err := b.predict(fmt.Sprintf("%s[%d]", path, i), x.Elem, ev, st, depth+1, out); err != nil {
					return err
				}
			}
		}
	case *IfaceV:
		tag, err := b.m.u64(x.Tag)
		if err != nil {
			return err
		}
		if tag == 0 {
			*out = append(*out, obs{path, "nil"})
		} else {
			*out = append(*out, obs{path, "nonnil"})
		}
	}
	return nil
}

// ---------------------------------------------------------------------------

const replayHelpers = `
func zzDump(w *strings.Builder, path string, v reflect.Value, depth int) {
	switch v.Kind() {
	case reflect.Bool:
		fmt.Fprintf(w, "%s=%v\n", path, v.Bool())
	case reflect.Int, reflect.Int8, reflect.Int16, reflect.Int32, reflect.Int64:
		fmt.Fprintf(w, "%s=%d\n", path, v.Int())
	case reflect.Uint, reflect.Uint8, reflect.Uint16, reflect.Uint32, reflect.Uint64:
		fmt.Fprintf(w, "%s=%d\n", path, v.Uint())
	case reflect.Ptr:
		if v.IsNil() {
			fmt.Fprintf(w, "%s=nil\n", path)
			return
		}
		fmt.Fprintf(w, "%s=ptr\n", path)
		if !v.CanInterface() {
			return
		}
		if it, ok := v.Interface().(*astikit.BytesIterator); ok {
			fmt.Fprintf(w, "%s.offset=%d\n", path, it.Offset())
			return
		}
		if v.Elem().Kind() != reflect.Struct || depth >= 3 || v.Elem().Type().PkgPath() != "github.com/asticode/go-astits" {
			return
		}
		zzDump(w, path, v.Elem(), depth+1)
	case reflect.Struct:
		if v.Type().PkgPath() != "github.com/asticode/go-astits" {
			return
		}
		for i := 0; i < v.NumField(); i++ {
			zzDump(w, path+"."+v.Type().Field(i).Name, v.Field(i), depth)
		}
	case reflect.Slice:
		fmt.Fprintf(w, "%s.len=%d\n", path, v.Len())
		if v.Type().Elem().Kind() == reflect.Uint8 {
			for i := 0; i < v.Len() && i < 24; i++ {
				fmt.Fprintf(w, "%s[%d]=%d\n", path, i, v.Index(i).Uint())
			}
		} else if v.Type().Elem().Kind() == reflect.Ptr && depth < 2 {
			for i := 0; i < v.Len() && i < 3; i++ {
				zzDump(w, fmt.Sprintf("%s[%d]", path, i), v.Index(i), depth+1)
			}
		}
	case reflect.Interface:
		if v.IsNil() {
			fmt.Fprintf(w, "%s=nil\n", path)
		} else {
			fmt.Fprintf(w, "%s=nonnil\n", path)
		}
	}
}
`

func (e *Engine) replayModel(o *Oblig, content map[string]interface{}) (bool, error) {
	info := o.info
	fn := info.fn
	info.run.mu.Lock()
	locked := true
	defer func() {
		if locked {
			info.run.mu.Unlock()
		}
	}()
	if fn.Pkg != e.pkg {
		return false, fmt.Errorf("function outside package astits")
	}
	// candidate model: the failing query itself when sat, otherwise the query without the
	// quantified spec axioms (a candidate only; the real code is the arbiter)
	if o.Res.Status != "sat" {
		content["model_source"] = "candidate model of the query with recursive spec axioms dropped"
	}
	// make sure every heap component the inputs/outputs can touch has its symbols, then
	// build a script with all definitions so that no declaration is needed after solving
	e.precreate(info)
	mode := 3
	script := info.run.ctx.queryMode([]string{o.Guard, not(o.Goal)}, nil, mode)
	m, err := newModelSession(info.run.ctx, script)
	if err != nil {
		return false, err
	}
	defer m.close()
	b := &builder{e: e, r: info.run, m: m, st: info.entry, refs: map[string]string{}}
	// inputs
	var args []string
	isMethod := fn.Signature.Recv() != nil
	for i, p := range fn.Params {
		l, err := b.lit(p.Type(), info.params[i], 0)
		if err != nil {
			return false, fmt.Errorf("input %s: %v", p.Name(), err)
		}
		v := fmt.Sprintf("a%d", i)
		b.stmts = append(b.stmts, fmt.Sprintf("var %s %s = %s", v, b.typeStr(p.Type()), l))
		args = append(args, v)
	}
	// predicted observations
	var pred []obs
	res := fn.Signature.Results()
	for i := 0; i < res.Len(); i++ {
		if err := b.predict(fmt.Sprintf("r%d", i), res.At(i).Type(), info.results[i], info.exit, 0, &pred); err != nil {
			return false, fmt.Errorf("predicting result %d: %v", i, err)
		}
	}
	for i, p := range fn.Params {
		if _, ok := p.Type().Underlying().(*types.Pointer); ok {
			if err := b.predict(fmt.Sprintf("a%d", i), p.Type(), info.params[i], info.exit, 0, &pred); err != nil {
				return false, fmt.Errorf("predicting post-state of %s: %v", p.Name(), err)
			}
		}
	}
	// test source
	var src strings.Builder
	src.WriteString("package astits\n\nimport (\n\t\"errors\"\n\t\"fmt\"\n\t\"reflect\"\n\t\"strings\"\n\t\"testing\"\n\t\"time\"\n\n\t\"github.com/asticode/go-astikit\"\n)\n\nvar _ = errors.New\nvar _ = time.Second\nvar _ = astikit.NewBytesIterator\n")
	src.WriteString(replayHelpers)
	src.WriteString("\nfunc TestZZVerifReplay(t *testing.T) {\n\tvar w strings.Builder\n\tdefer func() {\n\t\tif r := recover(); r != nil {\n\t\t\tfmt.Printf(\"ZZPANIC %v\\n\", r)\n\t\t}\n\t\tfmt.Print(w.String())\n\t}()\n")
	for _, s := range b.stmts {
		src.WriteString("\t" + s + "\n")
	}
	var call string
	if isMethod {
		call = fmt.Sprintf("%s.%s(%s)", args[0], fn.Name(), strings.Join(args[1:], ", "))
	} else {
		call = fmt.Sprintf("%s(%s)", fn.Name(), strings.Join(args, ", "))
	}
	var rs []string
	for i := 0; i < res.Len(); i++ {
		rs = append(rs, fmt.Sprintf("r%d", i))
	}
	if len(rs) > 0 {
		src.WriteString("\t" + strings.Join(rs, ", ") + " := " + call + "\n")
	} else {
		src.WriteString("\t" + call + "\n")
	}
	for _, rn := range rs {
		fmt.Fprintf(&src, "\tzzDump(&w, %q, reflect.ValueOf(&%s).Elem(), 0)\n", rn, rn)
	}
	for i, p := range fn.Params {
		if _, ok := p.Type().Underlying().(*types.Pointer); ok {
			fmt.Fprintf(&src, "\tzzDump(&w, \"a%d\", reflect.ValueOf(&a%d).Elem(), 0)\n", i, i)
		}
	}
	src.WriteString("\tfmt.Println(\"ZZDONE\")\n}\n")
	content["test_source"] = src.String()
	m.close()
	info.run.mu.Unlock()
	locked = false
	// run with overlay
	dir, err := os.MkdirTemp("/var/tmp", "govc-replay-")
	if err != nil {
		return false, err
	}
	defer os.RemoveAll(dir)
	tf := filepath.Join(dir, "zz_verif_replay_test.go")
	os.WriteFile(tf, []byte(src.String()), 0o644)
	ov := filepath.Join(dir, "overlay.json")
	ovb, _ := json.Marshal(map[string]interface{}{"Replace": map[string]string{filepath.Join(repoDir, "zz_verif_replay_test.go"): tf}})
	os.WriteFile(ov, ovb, 0o644)
	ctx, cancel := context.WithTimeout(context.Background(), 120*time.Second)
	defer cancel()
	cmd := exec.CommandContext(ctx, "bash", "-c", fmt.Sprintf("ulimit -v 8000000; cd %s && go test -overlay %s -vet=off -count=1 -timeout 60s -run '^TestZZVerifReplay$' -v .", repoDir, ov))
	cmd.Env = append(os.Environ(), "GOFLAGS=-mod=mod", "GOPROXY=off", "GOSUMDB=off", "GOTOOLCHAIN=local")
	var outb bytes.Buffer
	cmd.Stdout = &outb
	cmd.Stderr = &outb
	cmd.Run()
	output := outb.String()
	content["test_output"] = firstLines(output, 80)
	actual := map[string]string{}
	panicked := ""
	for _, l := range strings.Split(output, "\n") {
		l = strings.TrimSpace(l)
		if strings.HasPrefix(l, "ZZPANIC") {
			panicked = l
		}
		if i := strings.Index(l, "="); i > 0 && !strings.Contains(l[:i], " ") {
			actual[l[:i]] = l[i+1:]
		}
	}
	var predL []string
	agree := true
	var diffs []string
	sort.Slice(pred, func(i, j int) bool { return pred[i].path < pred[j].path })
	for _, p := range pred {
		predL = append(predL, p.path+"="+p.val)
		if a, ok := actual[p.path]; !ok || a != p.val {
			agree = false
			diffs = append(diffs, fmt.Sprintf("%s: model %s, real code %s", p.path, p.val, actual[p.path]))
		}
	}
	content["predicted"] = predL
	if strings.HasPrefix(o.Kind, "safe.") {
		if panicked != "" {
			content["outcome"] = "reproduced: the real code panics on the model's input: " + panicked
			return true, nil
		}
		content["outcome"] = "not-reproduced: the real code does not panic on the model's input"
		return false, nil
	}
	if !strings.Contains(output, "ZZDONE") {
		if panicked != "" {
			content["outcome"] = "real code panicked on the model's input: " + panicked
			content["panic"] = panicked
			return true, nil
		}
		return false, fmt.Errorf("replay test did not run to completion")
	}
	if agree {
		content["outcome"] = "reproduced: the real code returns exactly what the counter-model predicts, and the counter-model falsifies the clause"
		return true, nil
	}
	content["outcome"] = "not-reproduced: the model is not an execution of the real code (" + strings.Join(diffs, "; ") + ")"
	return false, nil
}
