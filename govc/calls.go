package main

import (
	"sort"
	"fmt"
	"go/types"
	"strings"

	"golang.org/x/tools/go/ssa"
)

const maxInlineDepth = 8
const maxInlineInstrs = 700

func (fr *Frame) call(st *State, c *ssa.CallCommon, in ssa.Instruction) (Value, error) {
	var args []Value
	for _, a := range c.Args {
		v, err := fr.value(a)
		if err != nil {
			return nil, err
		}
		args = append(args, v)
	}
	if b, ok := c.Value.(*ssa.Builtin); ok {
		return fr.builtin(st, b, c, args, in)
	}
	if c.IsInvoke() {
		recv, err := fr.value(c.Value)
		if err != nil {
			return nil, err
		}
		it := c.Value.Type()
		name := "(" + ifaceName(it) + ")." + c.Method.Name()
		sig := c.Method.Type().(*types.Signature)
		v, err := fr.callByContractOrHavoc(st, name, nil, sig, append([]Value{recv}, args...), true, in)
		if err == nil && fr.depth == 0 {
			if fr.lastRet == nil {
				fr.lastRet = map[string]Value{}
			}
			fr.lastRet["fn:"+name] = v
		}
		return v, err
	}
	fnv, err := fr.value(c.Value)
	if err != nil {
		return nil, err
	}
	return fr.callValue(st, fnv, c.Value.Type(), args, in)
}

func ifaceName(t types.Type) string {
	if n, ok := t.(*types.Named); ok {
		if n.Obj().Pkg() != nil {
			return n.Obj().Pkg().Name() + "." + n.Obj().Name()
		}
		return n.Obj().Name()
	}
	return typeKey(t)
}

func (fr *Frame) callValue(st *State, fnv Value, ft types.Type, args []Value, in ssa.Instruction) (Value, error) {
	r := fr.run
	s, ok := fnv.(*Sc)
	if !ok {
		return nil, r.unsupported("call of %T", fnv)
	}
	if s.Fn != nil {
		fn := s.Fn.Fn.(*ssa.Function)
		return fr.callStatic(st, fn, s.Fn.Bind, args, in)
	}
	// unknown function value: every call is counted in the ghost component G.calls (indexed
	// by the function value), then treated through the contract keyed by its named type
	{
		srt := sArr(sRef, sBV(64))
		h := r.heap.get(st, "G.calls", srt)
		r.heap.set(st, "G.calls", srt, sto(h, s.T, "(bvadd "+sel(h, s.T)+" #x0000000000000001)"), s.T)
	}
	name := "type:" + ifaceName(ft)
	sig := ft.Underlying().(*types.Signature)
	fr.safety(st, "safe.nilfunc", in, not(eq(s.T, refLit(0))), "call of nil function")
	v, err := fr.callByContractOrHavoc(st, name, nil, sig, args, false, in)
	if err == nil {
		if fr.lastRet == nil {
			fr.lastRet = map[string]Value{}
		}
		fr.lastRet[s.T] = v
	}
	return v, err
}

func (fr *Frame) callStatic(st *State, fn *ssa.Function, bind []Value, args []Value, in ssa.Instruction) (Value, error) {
	v, err := fr.callStatic1(st, fn, bind, args, in)
	if err == nil && fr.depth == 0 && fr.contract != nil {
		// "at call NAME!after#k assert ...": ghost assertions evaluated in the state right after the k-th call
		name := fr.run.eng.fnName(fn)
		k := fr.callCount[name] - 1
		for _, cl := range fr.contract.AtCall {
			if cl.Call == name+"!after" && (cl.CallK == k || cl.CallK == -1) && fr.run.active(cl.Tags) {
				g, gerr := fr.evalBool(cl.E, st, map[string]Value{})
				if gerr != nil {
					return nil, fmt.Errorf("at call %s!after#%d %s: %v", name, k, cl.Label, gerr)
				}
				if cl.Kind == "assert" {
					fr.run.addOblig(&Oblig{Name: fr.oblName("assert", fmt.Sprintf("%s!after#%d.%s", name, k, cl.Label)), Kind: "assert", Func: name0(fr), Label: cl.Label, Tags: cl.Tags, Text: cl.Text, Guard: st.guard, Goal: g})
				}
				fr.run.assume(st, g)
			}
		}
	}
	if err == nil && fr.depth == 0 {
		if fr.lastRet == nil {
			fr.lastRet = map[string]Value{}
		}
		fr.lastRet["fn:"+fr.run.eng.fnName(fn)] = v
	}
	return v, err
}

func (fr *Frame) callStatic1(st *State, fn *ssa.Function, bind []Value, args []Value, in ssa.Instruction) (Value, error) {
	r := fr.run
	name := r.eng.fnName(fn)
	if r.eng.specs.Funcs[name] == nil || r.eng.specs.Funcs[name].Opts["inline"] {
		// calls that are not made through a contract still serve as anchors for ghost assertions
		if fr.depth == 0 {
			if _, err := fr.atCallGhost(name, nil, nil, st); err != nil {
				return nil, err
			}
		}
	}
	// a write callback installed by the function under verification sees the bytes this call emits
	cbPre := fr.cbBefore(st)
	if v, handled, err := fr.intrinsic(st, name, fn, args, in); handled {
		if err == nil {
			err = fr.cbAfter(st, cbPre)
		}
		return v, err
	}
	if ct := r.eng.specs.Funcs[name]; ct != nil && !ct.Opts["inline"] {
		v, err := fr.callContract(st, ct, fn, fn.Signature, args, in)
		if err == nil {
			err = fr.cbAfter(st, cbPre)
		}
		return v, err
	}
	if fr.canInline(fn) {
		return fr.inline(st, fn, bind, args, in)
	}
	v, err := fr.callByContractOrHavoc(st, name, fn, fn.Signature, args, false, in)
	if err == nil {
		err = fr.cbAfter(st, cbPre)
	}
	return v, err
}

func (fr *Frame) canInline(fn *ssa.Function) bool {
	if len(fn.Blocks) == 0 || fr.depth >= maxInlineDepth {
		return false
	}
	if fn.Recover != nil {
		// functions with defer are fine, but keep it simple: allow
	}
	n := 0
	for _, b := range fn.Blocks {
		n += len(b.Instrs)
		for _, s := range b.Succs {
			if s.Dominates(b) {
				return false // loop
			}
		}
	}
	if n > maxInlineInstrs {
		return false
	}
	for _, f := range fr.stack {
		if f == fn {
			return false
		}
	}
	if fr.fn == fn {
		return false
	}
	return true
}

func (fr *Frame) inline(st *State, fn *ssa.Function, bind []Value, args []Value, in ssa.Instruction) (Value, error) {
	r := fr.run
	r.inlined[r.eng.fnName(fn)] = true
	sub := r.newFrame(fn, fr.depth+1)
	sub.stack = append(append([]*ssa.Function{}, fr.stack...), fr.fn)
	site := "?"
	if in != nil {
		site = posLabel(r, in.Pos())
	}
	sub.prefix = fr.prefix + r.eng.fnName(fr.fn) + "@" + site + ">"
	for i, p := range fn.Params {
		if i < len(args) {
			sub.setVal(p, args[i])
		}
	}
	for i, fv := range fn.FreeVars {
		if i < len(bind) {
			sub.setVal(fv, bind[i])
		}
	}
	res, out, err := sub.execBody(st)
	if err != nil {
		return nil, err
	}
	*st = *out
	return packResults(res), nil
}

func packResults(res []Value) Value {
	switch len(res) {
	case 0:
		return &TupleV{}
	case 1:
		return res[0]
	}
	return &TupleV{E: res}
}

// execBody runs the function body from st and returns merged results and exit state.
func (fr *Frame) execBody(st *State) ([]Value, *State, error) {
	r := fr.run
	fr.entry = st.clone()
	if len(fr.fn.Blocks) == 0 {
		return nil, nil, r.unsupported("function %s has no body", fr.fn.Name())
	}
	if err := fr.runBlocks(nil, fr.fn.Blocks[0], st.clone()); err != nil {
		return nil, nil, err
	}
	if len(fr.rets) == 0 {
		// no reachable return (e.g. always panics): dead exit
		dead := st.clone()
		r.assume(dead, "false")
		var res []Value
		results := fr.fn.Signature.Results()
		for i := 0; i < results.Len(); i++ {
			v, err := r.zeroValue(results.At(i).Type())
			if err != nil {
				return nil, nil, err
			}
			res = append(res, v)
		}
		return res, dead, nil
	}
	res, out, err := fr.mergeRets(fr.rets)
	return res, out, err
}

// mergeRets joins a set of return sites into one exit state and result tuple.
func (fr *Frame) mergeRets(rets []retRec) ([]Value, *State, error) {
	r := fr.run
	var sts []*State
	for _, rr := range rets {
		sts = append(sts, rr.st)
	}
	out := r.heap.merge(sts)
	n := len(rets[0].vals)
	res := make([]Value, n)
	for i := 0; i < n; i++ {
		acc := rets[len(rets)-1].vals[i]
		for j := len(rets) - 2; j >= 0; j-- {
			m, err := iteValue(r.ctx, rets[j].st.guard, rets[j].vals[i], acc)
			if err != nil {
				return nil, nil, r.unsupported("merging results of %s: %v", fr.fn.Name(), err)
			}
			acc = m
		}
		res[i] = fr.nameValue(fmt.Sprintf("%s.ret%d", fr.fn.Name(), i), acc)
		if s, ok := res[i].(*Sc); ok && s.Ty == nil {
			s.Ty = fr.fn.Signature.Results().At(i).Type()
		}
	}
	return res, out, nil
}

// okRets returns the return sites whose error results are not syntactically a freshly
// created error (fmt.Errorf / errors.New), plus the index of the error result.
func (fr *Frame) okRets() ([]retRec, []string) {
	results := fr.fn.Signature.Results()
	var errIdx []int
	var errNames []string
	for i := 0; i < results.Len(); i++ {
		if types.Identical(results.At(i).Type(), types.Universe.Lookup("error").Type()) {
			errIdx = append(errIdx, i)
			n := results.At(i).Name()
			if n == "" || n == "_" {
				n = fmt.Sprintf("result%d", i)
			}
			errNames = append(errNames, n)
		}
	}
	if len(errIdx) != 1 {
		return nil, nil
	}
	var ok []retRec
	for _, rr := range fr.rets {
		iv, isI := rr.vals[errIdx[0]].(*IfaceV)
		if isI && iv.Tag == bvLit(0xfff1, 16) {
			continue
		}
		ok = append(ok, rr)
	}
	if len(ok) == 0 || len(ok) == len(fr.rets) {
		return nil, nil
	}
	return ok, errNames
}

func (fr *Frame) runDefers(st *State) error {
	r := fr.run
	for i := len(fr.defers) - 1; i >= 0; i-- {
		d := fr.defers[i]
		run := st.clone()
		r.assume(run, d.guard)
		skip := st.clone()
		r.assume(skip, not(d.guard))
		var err error
		if b, ok := d.call.Value.(*ssa.Builtin); ok {
			_, err = fr.builtin(run, b, d.call, d.args, nil)
		} else if d.call.IsInvoke() {
			return r.unsupported("deferred interface call")
		} else {
			_, err = fr.callValue(run, d.fnv, d.call.Value.Type(), d.args, nil)
		}
		if err != nil {
			return err
		}
		m := r.heap.merge([]*State{run, skip})
		// the merged guard is (run or skip) == st.guard; keep the original guard symbolically equal
		*st = *m
	}
	return nil
}

// ---------------------------------------------------------------------------
// Builtins

func (fr *Frame) builtin(st *State, b *ssa.Builtin, c *ssa.CallCommon, args []Value, in ssa.Instruction) (Value, error) {
	r := fr.run
	switch b.Name() {
	case "len", "cap":
		switch x := args[0].(type) {
		case *SliceV:
			if b.Name() == "len" {
				return intV(x.Len), nil
			}
			return intV(x.Cap), nil
		case *Sc:
			if mt, ok := c.Args[0].Type().Underlying().(*types.Map); ok {
				card := "Mp." + typeKey(mt) + ".card"
				h := r.heap.get(st, card, sArr(sRef, sBV(64)))
				v := ite(eq(x.T, refLit(0)), bvLit(0, 64), sel(h, x.T))
				r.assume(st, "(bvsle #x0000000000000000 "+v+")")
				return intV(v), nil
			}
			if x.K == kStr {
				r.declareOnce("(declare-fun strlen (Str) (_ BitVec 64))")
				v := "(strlen " + x.T + ")"
				r.assume(st, "(bvsle #x0000000000000000 "+v+")")
				return intV(v), nil
			}
		}
		return nil, r.unsupported("len of %T", args[0])
	case "append":
		return fr.appendOp(st, c, args, in)
	case "copy":
		dst, ok1 := args[0].(*SliceV)
		src, ok2 := args[1].(*SliceV)
		if !ok1 || !ok2 {
			return nil, r.unsupported("copy of %T,%T", args[0], args[1])
		}
		n := r.ctx.define("copyn", sBV(64), ite("(bvslt "+dst.Len+" "+src.Len+")", dst.Len, src.Len))
		if err := r.copyElems(st, dst.Elem, dst.Base, dst.Off, src.Base, src.Off, n); err != nil {
			return nil, err
		}
		return intV(n), nil
	case "delete":
		mt := c.Args[0].Type().Underlying().(*types.Map)
		if err := r.mapDelete(st, mt, args[0].(*Sc).T, args[1].(*Sc).T); err != nil {
			return nil, err
		}
		return &TupleV{}, nil
	case "min", "max":
		a, ok1 := args[0].(*Sc)
		bb, ok2 := args[1].(*Sc)
		if ok1 && ok2 && a.K == kBV && len(args) == 2 {
			lt := "bvult"
			if a.Signed {
				lt = "bvslt"
			}
			if b.Name() == "min" {
				return bv(ite("("+lt+" "+a.T+" "+bb.T+")", a.T, bb.T), a.W, a.Signed), nil
			}
			return bv(ite("("+lt+" "+a.T+" "+bb.T+")", bb.T, a.T), a.W, a.Signed), nil
		}
	}
	return nil, r.unsupported("builtin %s", b.Name())
}

// copyElems: dst[doff+k] = src[soff+k] for 0<=k<n, everything else unchanged.
func (r *Run) copyElems(st *State, elem types.Type, dbase, doff, sbase, soff, n string) error {
	if isStruct(elem) {
		return r.unsupported("copy of struct elements")
	}
	ls, err := leavesOf(elem)
	if err != nil {
		return r.unsupported("%v", err)
	}
	for _, l := range ls {
		name := elemComp(elem) + l.suffix
		asort := sArr(sBV(64), l.sort)
		srt := sArr(sRef, asort)
		h := r.heap.get(st, name, srt)
		na := r.ctx.fresh("copied", asort)
		olda := sel(h, dbase)
		srca := sel(h, sbase)
		ax := fmt.Sprintf("(forall ((k!c (_ BitVec 64))) (! (= (select %s k!c) (ite (and (bvsle %s k!c) (bvslt k!c (bvadd %s %s))) (select %s (bvadd %s (bvsub k!c %s))) (select %s k!c))) :pattern ((select %s k!c))))",
			na, doff, doff, n, srca, soff, doff, olda, na)
		r.heap.set(st, name, srt, sto(h, dbase, na), dbase)
		r.assume(st, ax)
		// the same fact as an equation between abstract sequences (quantifier-free to use)
		r.assume(st, eq(r.seqOf(l.sort, na, doff, n), r.seqOf(l.sort, srca, soff, n)))
	}
	return nil
}

func (fr *Frame) appendOp(st *State, c *ssa.CallCommon, args []Value, in ssa.Instruction) (Value, error) {
	r := fr.run
	s, ok := args[0].(*SliceV)
	if !ok {
		return nil, r.unsupported("append to %T", args[0])
	}
	t, ok := args[1].(*SliceV)
	if !ok {
		return nil, r.unsupported("append of %T", args[1])
	}
	elem := s.Elem
	newLen := r.ctx.define("applen", sBV(64), "(bvadd "+s.Len+" "+t.Len+")")
	fits := r.ctx.define("appfits", sBool, "(bvsle "+newLen+" "+s.Cap+")")
	// Case 1: in place. Case 2: fresh backing array with copied prefix.
	freshRef := r.newRef(st)
	newCap := r.ctx.fresh("appcap", sBV(64))
	r.assume(st, and("(bvsle "+newLen+" "+newCap+")", "(bvslt "+newCap+" #x0001000000000000)"))
	resBase := r.ctx.define("appbase", sRef, ite(fits, s.Base, freshRef))
	resOff := r.ctx.define("appoff", sBV(64), ite(fits, s.Off, bvLit(0, 64)))
	resCap := r.ctx.define("appcap", sBV(64), ite(fits, s.Cap, newCap))
	// element memory: target array gets old prefix (if fresh) and new elements
	if isStruct(elem) {
		return nil, r.unsupported("append of struct elements")
	}
	ls, err := leavesOf(elem)
	if err != nil {
		return nil, r.unsupported("%v", err)
	}
	for _, l := range ls {
		name := elemComp(elem) + l.suffix
		asort := sArr(sBV(64), l.sort)
		srt := sArr(sRef, asort)
		h := r.heap.get(st, name, srt)
		na := r.ctx.fresh("appended", asort)
		olda := sel(h, s.Base) // contents of the source backing array
		srca := sel(h, t.Base)
		// for k in [resOff, resOff+len): from old prefix; [resOff+len, resOff+newLen): from t; else unchanged (in place) / arbitrary (fresh)
		ax := fmt.Sprintf("(forall ((k!a (_ BitVec 64))) (! (= (select %s k!a) (ite (and (bvsle %s k!a) (bvslt k!a (bvadd %s %s))) (select %s (bvadd %s (bvsub k!a %s))) (ite (and (bvsle (bvadd %s %s) k!a) (bvslt k!a (bvadd %s %s))) (select %s (bvadd %s (bvsub k!a (bvadd %s %s)))) (select %s k!a)))) :pattern ((select %s k!a))))",
			na,
			resOff, resOff, s.Len, olda, s.Off, resOff,
			resOff, s.Len, resOff, newLen, srca, t.Off, resOff, s.Len,
			ite(fits, olda, "((as const "+asort+") "+zeroOf(r, l)+")"),
			na)
		r.heap.set(st, name, srt, sto(h, resBase, na), resBase)
		r.assume(st, ax)
		r.assume(st, eq(r.seqOf(l.sort, na, resOff, s.Len), r.seqOf(l.sort, olda, s.Off, s.Len)))
		r.assume(st, eq(r.seqOf(l.sort, na, "(bvadd "+resOff+" "+s.Len+")", t.Len), r.seqOf(l.sort, srca, t.Off, t.Len)))
	}
	return &SliceV{Base: resBase, Off: resOff, Len: newLen, Cap: resCap, Elem: elem}, nil
}

func zeroOf(r *Run, l leaf) string {
	if l.k == kStr {
		return r.ctx.strConst("")
	}
	return zeroLeaf(l)
}

// ---------------------------------------------------------------------------
// Intrinsics: a few library functions modelled directly

func (fr *Frame) intrinsic(st *State, name string, fn *ssa.Function, args []Value, in ssa.Instruction) (Value, bool, error) {
	r := fr.run
	if v, handled, err := fr.bitsWriterIntrinsic(st, name, args, in); handled {
		return v, true, err
	}
	switch name {
	case "fmt.Errorf", "errors.New":
		r.assumed[name] = true
		ref := r.newRef(st)
		res := &IfaceV{Tag: bvLit(0xfff1, 16), Ref: ref}
		// wrapped errors: scan the varargs array stores syntactically
		if name == "fmt.Errorf" {
			r.declareOnce("(declare-fun err.wraps (" + sRef + " " + sRef + ") Bool)")
			ws := fr.wrappedErrors(in)
			{
				// a fresh error wraps exactly what its %w operands are and wrap - nothing else
				alts := []string{}
				for _, w := range ws {
					alts = append(alts, "(= x!v "+w.Ref+")", "(err.wraps "+w.Ref+" x!v)")
				}
				rhs := "false"
				if len(alts) > 0 {
					rhs = "(or " + strings.Join(alts, " ") + ")"
				}
				r.assume(st, fmt.Sprintf("(forall ((x!v %s)) (! (=> (err.wraps %s x!v) %s) :pattern ((err.wraps %s x!v))))", sRef, ref, rhs, ref))
			}
			for _, w := range ws {
				r.assume(st, "(err.wraps "+ref+" "+w.Ref+")")
				// errors.Is follows the whole chain: what the wrapped error wraps, the new one wraps too
				r.assume(st, fmt.Sprintf("(forall ((x!w %s)) (! (=> (err.wraps %s x!w) (err.wraps %s x!w)) :pattern ((err.wraps %s x!w))))", sRef, w.Ref, ref, w.Ref))
			}
		}
		return res, true, nil
	case "errors.Is":
		r.assumed[name] = true
		r.declareOnce("(declare-fun err.wraps (" + sRef + " " + sRef + ") Bool)")
		a, ok1 := args[0].(*IfaceV)
		b, ok2 := args[1].(*IfaceV)
		if !ok1 || !ok2 {
			return nil, true, r.unsupported("errors.Is args")
		}
		// is(a,b) <=> a == b or a (transitively) wraps b; we model one level: equality or recorded wrap
		// error values are identified by the object they point to
		return boolV(or(eq(a.Ref, b.Ref), "(err.wraps "+a.Ref+" "+b.Ref+")")), true, nil
	}
	return nil, false, nil
}

// wrappedErrors finds the error values stored into the varargs array of a fmt.Errorf call.
func (fr *Frame) wrappedErrors(in ssa.Instruction) []*IfaceV {
	call, ok := in.(*ssa.Call)
	if !ok || len(call.Call.Args) < 2 {
		return nil
	}
	sl, ok := call.Call.Args[1].(*ssa.Slice)
	if !ok {
		return nil
	}
	alloc, ok := sl.X.(*ssa.Alloc)
	if !ok {
		return nil
	}
	var out []*IfaceV
	for _, ref := range *alloc.Referrers() {
		ia, ok := ref.(*ssa.IndexAddr)
		if !ok {
			continue
		}
		for _, u := range *ia.Referrers() {
			s, ok := u.(*ssa.Store)
			if !ok {
				continue
			}
			v := s.Val
			if ci, ok := v.(*ssa.ChangeInterface); ok {
				v = ci.X
			}
			if !types.Identical(v.Type(), types.Universe.Lookup("error").Type()) {
				continue
			}
			if val, err := fr.value(v); err == nil {
				if iv, ok := val.(*IfaceV); ok {
					out = append(out, iv)
				}
			}
		}
	}
	return out
}

// ---------------------------------------------------------------------------
// Contract-based calls

func (fr *Frame) callByContractOrHavoc(st *State, name string, fn *ssa.Function, sig *types.Signature, args []Value, invoke bool, in ssa.Instruction) (Value, error) {
	r := fr.run
	if ct := r.eng.specs.Funcs[name]; ct != nil {
		return fr.callContract(st, ct, fn, sig, args, in)
	}
	// default: unknown effect
	r.assumed["havoc:"+name] = true
	pkgLocal := fn != nil && fn.Pkg != nil && (fn.Pkg == r.eng.pkg || strings.Contains(fn.Pkg.Pkg.Path(), "asticode"))
	if pkgLocal || strings.HasPrefix(name, "type:") && false {
		r.havocAll(st)
	}
	res, err := r.freshValue("ret."+sanitize(name), sig.Results())
	if err != nil {
		return nil, err
	}
	tv := res.(*TupleV)
	fresh := r.ctx.fresh("alloc", sRef)
	r.assume(st, refLe(st.alloc, fresh))
	st.alloc = fresh
	r.assume(st, r.typeInv(st, tv))
	return packResults(tv.E), nil
}

func (r *Run) havocAll(st *State) {
	st.epoch = r.nextEpoch()
	st.heap = map[string]string{}
	for l := range r.heap.log {
		m := r.heap.log[l]["*"]
		if m == nil {
			r.heap.log[l]["*"] = map[string]bool{"*": true}
		}
	}
}

var epochCounter int

func (r *Run) nextEpoch() int {
	epochCounter++
	return epochCounter
}

// paramNames lists the names a contract may use for the callee's parameters.
func paramNames(fn *ssa.Function, sig *types.Signature, nargs int) []string {
	var names []string
	if fn != nil {
		for _, p := range fn.Params {
			names = append(names, p.Name())
		}
		return names
	}
	if sig.Recv() != nil || nargs == sig.Params().Len()+1 {
		names = append(names, "recv")
	}
	for i := 0; i < sig.Params().Len(); i++ {
		n := sig.Params().At(i).Name()
		if n == "" || n == "_" {
			n = fmt.Sprintf("arg%d", i)
		}
		names = append(names, n)
	}
	return names
}

func resultNames(sig *types.Signature) []string {
	var names []string
	for i := 0; i < sig.Results().Len(); i++ {
		n := sig.Results().At(i).Name()
		if n == "" || n == "_" {
			n = fmt.Sprintf("result%d", i)
		}
		names = append(names, n)
	}
	return names
}

func (fr *Frame) callContract(st *State, ct *FuncContract, fn *ssa.Function, sig *types.Signature, args []Value, in ssa.Instruction) (Value, error) {
	r := fr.run
	if ct.Extern {
		r.assumed[ct.Name] = true
	} else {
		r.noteUsed(ct.Name)
	}
	pn := paramNames(fn, sig, len(args))
	names := map[string]Value{}
	for i, n := range pn {
		if i < len(args) {
			names[n] = args[i]
		}
	}
	lets := map[string]Expr{}
	for _, l := range ct.Lets {
		lets[l.Name] = l.E
	}
	site := "?"
	if in != nil {
		site = posLabel(r, in.Pos())
	}
	calleeShort := ct.Name
	k, err := fr.atCallGhost(calleeShort, pn, args, st)
	if err != nil {
		return nil, err
	}
	pre := st.clone()
	env := &evalEnv{fr: fr, st: st, old: pre, names: names, lets: lets, callee: true}
	// 1. preconditions
	for _, cl := range ct.Requires {
		g, err := fr.evalBoolEnv(cl.E, env)
		if err != nil {
			return nil, fmt.Errorf("requires %s of %s: %v", cl.Label, ct.Name, err)
		}
		if ct.Opts["noframe"] {
			r.assumed["frame of "+ct.Name+" (opt noframe: the caller relies on its modifies clause, which is not checked against the body)"] = true
		}
		if ct.Opts["nopre"] {
			r.assumed["precondition of "+ct.Name+" at its call sites (assumed, not proved: opt nopre)"] = true
		}
		if r.dry == 0 && !ct.Opts["nopre"] && !r.faults {
			r.addOblig(&Oblig{Name: fr.oblName("pre@call", fmt.Sprintf("%s#%d.%s", calleeShort, k, cl.Label)), Kind: "pre@call", Func: r.eng.fnName(fr.fn), Label: cl.Label, Tags: cl.Tags, Text: cl.Text + "   [call at " + site + "]", Guard: st.guard, Goal: g})
		}
		r.assume(st, g)
	}
	// 2. havoc modifies
	post := &postState{r: r, pre: pre, st: st, mark: len(r.ctx.defs), mods: map[string][]string{}, done: map[string]bool{}, pure: ct.Opts["pure"], noalloc: ct.Opts["noalloc"] || ct.Opts["pure"]}
	if !post.noalloc {
		fresh := r.ctx.fresh("alloc", sRef)
		r.assume(st, refLe(pre.alloc, fresh))
		st.alloc = fresh
	}
	// results exist before the frame is applied, so that a modifies clause may name them
	rn := resultNames(sig)
	var results []Value
	for i, n := range rn {
		v, err := r.freshValue("ret."+sanitize(ct.Name)+"."+n, sig.Results().At(i).Type())
		if err != nil {
			return nil, err
		}
		if s, ok := v.(*Sc); ok {
			s.Ty = sig.Results().At(i).Type()
		}
		results = append(results, v)
		names[n] = v
	}
	if len(results) == 1 {
		names["result"] = results[0]
	}
	for i, m := range ct.Modifies {
		if err := fr.applyModifies(m, env, post); err != nil {
			return nil, fmt.Errorf("modifies %s of %s: %v", ct.ModText[i], ct.Name, err)
		}
	}
	post.apply()
	// 3. results
	for _, v := range results {
		r.assume(st, r.typeInv(st, v))
	}
	if len(results) == 1 {
		names["result"] = results[0]
	}
	// 4. postconditions (components read here are havocked lazily at fresh refs)
	env.post = post
	for _, cl := range ct.Ensures {
		// every clause of the callee's contract is available to the caller, whatever property
		// it is tagged with: each clause is discharged by the check of the properties it names
		// (fault-mode runs keep to the fault-mode clauses: the others describe the exact model)
		if r.faults && !r.active(cl.Tags) {
			continue
		}
		if strings.Contains(cl.Text, "ret(") || strings.Contains(cl.Text, "retof(") {
			// speaks about calls made inside the callee: meaningless in the caller's frame
			continue
		}
		if knownOpenAny[ct.Name+"#post#"+cl.Label] {
			// recorded as failing on the unchanged tree (open known finding): callers must not rely on it
			continue
		}
		g, err := fr.evalBoolEnv(cl.E, env)
		if err != nil {
			if strings.Contains(err.Error(), "retof:") || strings.Contains(err.Error(), "ret:") {
				// the clause (through a let) speaks about calls made inside the callee
				continue
			}
			return nil, fmt.Errorf("ensures %s of %s: %v", cl.Label, ct.Name, err)
		}
		r.assume(st, g)
		fr.rebindFromExpr(cl.E, st, env)
	}
	return packResults(results), nil
}

// atCallGhost counts the call and proves/assumes the ghost assertions the caller's
// contract anchors at it ("at call <callee>#k assert ...").
func (fr *Frame) atCallGhost(calleeShort string, pn []string, args []Value, st *State) (int, error) {
	r := fr.run
	k := fr.callCount[calleeShort]
	fr.callCount[calleeShort] = k + 1
	if fr.contract == nil {
		return k, nil
	}
	for _, cl := range fr.contract.AtCall {
		if cl.Call == calleeShort && (cl.CallK == k || cl.CallK == -1) && r.active(cl.Tags) {
			callerNames := map[string]Value{}
			for i, n := range pn {
				if i < len(args) {
					callerNames["$"+n] = args[i]
				}
			}
			g, err := fr.evalBool(cl.E, st, callerNames)
			if err != nil {
				return k, fmt.Errorf("at call %s#%d %s: %v", calleeShort, k, cl.Label, err)
			}
			if cl.Kind == "assert" {
				r.addOblig(&Oblig{Name: fr.oblName("assert", fmt.Sprintf("%s#%d.%s", calleeShort, k, cl.Label)), Kind: "assert", Func: r.eng.fnName(fr.fn), Label: cl.Label, Tags: cl.Tags, Text: cl.Text, Guard: st.guard, Goal: g})
			}
			r.assume(st, g)
			fr.rebindCut(cl.E, st)
		}
	}
	return k, nil
}

// postState implements the heap after a call made through a contract, without
// quantifiers: a component is changed (a) at the references listed in modifies, where it
// gets an unknown value, and (b) at references allocated by the callee. For (b), every
// read of component C at reference r made while evaluating the postconditions yields
// ite(r existed before the call and is not in modifies, C_old[r], Cf[r]) with one unknown
// array Cf per call and component, and the post-call version of C records that value at r.
type postState struct {
	r       *Run
	pre     *State
	st      *State
	mods    map[string][]string // comp -> refs that may be modified ("*" = all)
	done    map[string]bool
	fresh   map[string]string // comp -> Cf
	seen    map[string]bool   // comp|ref already recorded
	lifted  map[string]string // comp -> pointwise-defined post-call version (reads under quantifiers)
	mark    int               // number of definitions when the call started
	pure    bool
	noalloc bool
}

func (p *postState) addMod(comp, sort, ref string) {
	p.r.heap.declare(comp, sort)
	p.mods[comp] = append(p.mods[comp], ref)
}

func (p *postState) apply() {
	var comps []string
	for comp := range p.mods {
		comps = append(comps, comp)
	}
	sort.Strings(comps)
	for _, comp := range comps {
		p.touch(comp)
	}
}

// touch gives comp its post-call base version (modifies applied).
func (p *postState) touch(comp string) {
	if p.done[comp] || p.pure {
		return
	}
	p.done[comp] = true
	refs := p.mods[comp]
	if len(refs) == 0 {
		return
	}
	r := p.r
	srt := r.heap.comps[comp]
	old := r.heap.get(p.pre, comp, srt)
	for _, x := range refs {
		if x == "*" {
			r.heap.set(p.st, comp, srt, r.ctx.fresh(comp, srt), "*")
			return
		}
	}
	_, es := arrSorts(srt)
	cur := old
	for _, x := range refs {
		cur = sto(cur, x, r.ctx.fresh(comp+".mod", es))
		r.heap.set(p.st, comp, srt, cur, x)
		cur = p.st.heap[comp]
	}
}

// read returns the post-call value of comp at ref (used while evaluating ensures).
func (p *postState) read(comp, srt, ref string) string {
	r := p.r
	r.heap.declare(comp, srt)
	p.touch(comp)
	if p.pure || p.noalloc {
		return sel(r.heap.get(p.st, comp, srt), ref)
	}
	for _, x := range p.mods[comp] {
		if x == "*" {
			return sel(r.heap.get(p.st, comp, srt), ref)
		}
	}
	// a reference computed before the call denotes an object that existed before the call
	// (Go has no dangling or forged pointers): its post-call value is the base version
	if r.ctx.olderThan(ref, p.mark) {
		return sel(r.heap.get(p.st, comp, srt), ref)
	}
	if p.fresh == nil {
		p.fresh = map[string]string{}
		p.seen = map[string]bool{}
	}
	cf, ok := p.fresh[comp]
	if !ok {
		cf = r.ctx.fresh(comp+".cf", srt)
		p.fresh[comp] = cf
	}
	cur := r.heap.get(p.st, comp, srt)
	val := ite(refLt(ref, p.pre.alloc), sel(cur, ref), sel(cf, ref))
	if mentionsBound(ref) {
		// inside a quantifier nothing can be recorded per reference: the post-call version of the whole
		// component is defined pointwise instead (old objects keep the base version, objects allocated by
		// the callee take the unknown one), once per call and component
		if p.lifted == nil {
			p.lifted = map[string]string{}
		}
		nw, ok := p.lifted[comp]
		if !ok {
			nw = r.ctx.fresh(comp+".post", srt)
			r.assume(p.st, fmt.Sprintf("(forall ((r!p %s)) (! (= (select %s r!p) (ite (< r!p %s) (select %s r!p) (select %s r!p))) :pattern ((select %s r!p))))", sRef, nw, p.pre.alloc, cur, cf, nw))
			p.lifted[comp] = nw
			r.heap.set(p.st, comp, srt, nw, "$fresh")
		}
		return sel(nw, ref)
	}
	key := comp + "|" + ref
	if !p.seen[key] {
		p.seen[key] = true
		_, es := arrSorts(srt)
		var v string
		if strings.HasPrefix(es, "(Array") {
			// element memory: name the inner array by a constant so that quantifier
			// triggers over it survive the solver's rewriting of select-over-ite
			v = r.ctx.fresh(comp+".rd", es)
			r.assume(p.st, eq(v, val))
		} else {
			v = r.ctx.define(comp+".rd", es, val)
		}
		r.heap.set(p.st, comp, srt, sto(cur, ref, v), "$fresh")
		return v
	}
	return val
}

func name0(fr *Frame) string { return fr.run.eng.fnName(fr.fn) }
