package main

import (
	"fmt"
	"go/types"
	"sort"
	"strings"

	"golang.org/x/tools/go/ssa"
)

// cmdGenSweep prints skeleton contracts (no-panic sweep, property C03) for every function
// of package astits reachable from the demuxer API that has no contract yet.
func cmdGenSweep(args []string) int {
	e, err := setup()
	if err != nil {
		fmt.Println(err)
		return 2
	}
	roots := []string{"(*Demuxer).NextData", "(*Demuxer).NextPacket", "(*Demuxer).Rewind", "NewDemuxer"}
	seen := map[*ssa.Function]bool{}
	var work []*ssa.Function
	for _, r := range roots {
		if fn := e.byName[r]; fn != nil {
			work = append(work, fn)
		}
	}
	for len(work) > 0 {
		fn := work[len(work)-1]
		work = work[:len(work)-1]
		if seen[fn] || fn.Pkg != e.pkg {
			continue
		}
		seen[fn] = true
		for _, b := range fn.Blocks {
			for _, in := range b.Instrs {
				if c, ok := in.(ssa.CallInstruction); ok {
					if callee := c.Common().StaticCallee(); callee != nil {
						work = append(work, callee)
					}
				}
			}
		}
	}
	var names []string
	for fn := range seen {
		names = append(names, e.fnName(fn))
	}
	sort.Strings(names)
	for _, n := range names {
		if e.specs.Funcs[n] != nil {
			continue
		}
		fn := e.byName[n]
		nloops := 0
		for _, b := range fn.Blocks {
			for _, s := range b.Succs {
				if s.Dominates(b) {
					nloops++
				}
			}
		}
		itParam := ""
		var ptrs []string
		for _, p := range fn.Params {
			if pt, ok := p.Type().Underlying().(*types.Pointer); ok {
				if strings.HasSuffix(pt.Elem().String(), "astikit.BytesIterator") {
					itParam = p.Name()
				} else {
					ptrs = append(ptrs, p.Name())
				}
			}
		}
		fmt.Printf("//@ func %s\n", n)
		if itParam != "" {
			fmt.Printf("//@   requires itOK(%s)\n//@   modifies %s.offset\n", itParam, itParam)
		}
		for i := 0; i < nloops; i++ {
			if itParam != "" {
				fmt.Printf("//@   loop %d invariant itOK(%s)\n", i, itParam)
			}
		}
		fmt.Printf("//@   opt sweep:C03\n\n")
	}
	return 0
}
