#!/bin/bash
# Runs every claimed check (quick tier), refreshing evidence, expected obligations and the proof cache.
cd /verif
for p in "$@"; do
  GOVC_UPDATE_CACHE=1 ./bin/govc check -p $p -write-expected 2>&1 | grep -v "^   " | tail -6 | cut -c1-220
done
