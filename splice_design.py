#!/usr/bin/env python3
# Splices design_as_built.md into DESIGN.md as section 11 (before Appendix A); idempotent.
p='/verif/DESIGN.md'
s=open(p).read()
new=open('/verif/design_as_built.md').read()
try:
    res=open('/verif/seeded/RESULTS.md').read()
    tbl='\n'.join(l for l in res.split('\n') if l.startswith('|') or l.startswith('Detected'))
except Exception:
    tbl='(run /verif/seeded/run_all_seeded.sh)'
new=new.replace('SEEDED_RESULTS_TABLE', tbl)
marker='## Appendix A. Contract sketches for the five hardest functions'
a=s.find('## 11. As built')
b=s.find(marker)
if a>=0:
    s=s[:a]+new+'---------------------------------------------------------------------------\n\n'+s[b:]
else:
    s=s[:b]+new+'---------------------------------------------------------------------------\n\n'+s[b:]
open(p,'w').write(s)
