#!/usr/bin/env python3
# Generates MANIFEST.json from the table below (kept next to the checks so that the two stay in step).
import json, subprocess
props=[json.loads(l) for l in open('/verif/properties.jsonl')]
ids=[p['id'] for p in props]
claimed = {
 "C10": dict(text="Proof: updateCRC32/computeCRC32 are verified against a bit-serial CRC-32/MPEG-2 specification written from ISO 13818-1 Annex A (loop invariant over an uninterpreted fold, table step proved over all 2^40 (state, byte) pairs with the 256 table literals re-read from the tree), plus code-independent lemmas (split into pieces, offset shift, zero residue). Holds for every byte string of every length; nothing is sampled.",
             note="Trusted: govc generator, go/ssa, SMT solvers; tableCRC32 constant (scan: no store to package variables outside init).",
             ref="DESIGN.md 5 (C10)"),
 "C11": dict(text="Proof, both directions: parsePacketHeader, parsePCR, parsePacketAdaptationField, payloadOffset and parsePacket are verified field by field against the ISO 13818-1 2.4.3.2-5 bit layout for every input byte string (all flag combinations, all lengths), including payload extent/content and that only byte 0 and the last 187 bytes are read; an adaptation field of length 0 is marked as the one-byte form so that WritePacket re-emits the packet unchanged (genuine defect found by parsePacketAdaptationField#post#onebyte and fixed), and the parsed field has exactly the layout size it was read with (clause relen: afBytes(a) == 1 + adaptation_field_length when the extension, if present, is non-empty), so the re-emitted packet has the same shape. Write side: writePacketHeader/writePCR/writePacketAdaptationField emit the reference bytes (length, flags, PCR/OPCR, splice countdown, private data, extension, stuffing) and writePacket pads to exactly the target size.",
             note="Trusted: generator, go/ssa, solvers; fmt.Errorf model; PacketSkipper callback assumed pure. astikit.BytesIterator methods are verified from source, not assumed.",
             ref="DESIGN.md 5 (C11)"),
 "C12": dict(text="Proof, both directions: parse side - every PES header field, PTS/DTS/ESCR bit layout, optional-header offsets, extension fields, data start/end rule and payload extent for all inputs against ISO 13818-1 2.4.3.6-7; write side - writePTSOrDTS/writeESCR/writeDSMTrickMode/writePESOptionalHeader/writePESHeader/writePESData emit the reference bytes at the offsets given by the same layout functions (all flag combinations of the optional header, by exhaustive case analysis over 128 cases), calcPESOptionalHeaderLength and calcPESDataLength agree with what is written, PES_packet_length is exact; a parsed optional header without CRC and pack fields has exactly the layout size it was read with (clause relen: ohEnd(h) == bytes consumed), so it is re-emitted with the same length; lemma ts33RoundTrip: decode(encode(ts)) == ts for every 33-bit timestamp; ClockReference.Duration proved overflow-free for 33-bit base / 9-bit extension.",
             note="Trusted: generator, go/ssa, solvers; fmt.Errorf model. Genuine defect found by this check (CRC high byte) is fixed in /repo (see known_findings.json).",
             ref="DESIGN.md 5 (C12)"),
}
def load_extra():
    try:
        return json.load(open('/verif/manifest_claims.json'))
    except Exception:
        return {}
claimed.update(load_extra())
hook_commits = subprocess.run(['git','-C','/repo','log','--format=%h %s'],capture_output=True,text=True).stdout.strip().split('\n')
hook_commits=[c.split()[0] for c in hook_commits if ' verif:' in c]
na_reason = {}
try:
    na_reason = json.load(open('/verif/not_applicable.json'))
except Exception:
    pass
m={"version":1,
 "setup_cmd":"cd /verif/govc && GOFLAGS=-mod=mod GOPROXY=off GOSUMDB=off GOTOOLCHAIN=local go build -o ../bin/govc .",
 "hooks":{"guard":"verif","enable":"-tags=verif (the only hook is /repo/contracts_verif.go: build-tagged, comment-only; govc reads its //@ lines)","baseline_off_cmd":"cd /repo && GOFLAGS=-mod=mod GOPROXY=off GOSUMDB=off go test -vet=off -count=1 ./...","source_commits":hook_commits,"add_only":True},
 "engines":[{"name":"govc","path":"/verif/govc","serves_properties":sorted(claimed.keys()),"kind_free_text":"self-written deductive verifier for Go: weakest-precondition style symbolic execution over go/ssa of the real package, contracts as //@ comments in /repo/contracts_verif.go, spec functions and lemmas in /verif/spec, obligations discharged per function (callers use callee contracts) by z3 4.8.12 / z3-new 5.1.0 / cvc5 1.0.3; counter-models replayed on the real code with go test -overlay"}],
 "checks":[],
 "notes":"see DESIGN.md; known_findings.json lists fixed/open defects; seeded/ holds the breaking changes used to test the checks",
 "not_applicable":[]}
for pid in ids:
    if pid in claimed:
        c=claimed[pid]
        m["checks"].append({"property_id":pid,
          "quick_cmd":f"./bin/govc check -p {pid} -tier quick",
          "thorough_cmd":f"./bin/govc check -p {pid} -tier thorough",
          "evidence_file":f"/verif/evidence/{pid}.json",
          "replay_cmd_template":"./bin/govc replay {path}",
          "engine":"govc",
          "level_claimed":{"category":"proof","text":c['text'],"design_ref":c.get('ref','DESIGN.md 5')},
          "level_note":c['note'],
          "technique":"contract-based deductive verification: SMT-discharged proof obligations generated from go/ssa of the real code against //@ contracts"})
    else:
        m["not_applicable"].append({"property_id":pid,"reason":na_reason.get(pid,"contracts for this property are not built yet (work in progress; see DESIGN.md 5)")})
json.dump(m,open('/verif/MANIFEST.json','w'),indent=1)
print("claimed:",sorted(claimed.keys()))
